// Package daccept drives leaf writes through every write path (C05) and records
// whether the value was accepted and what the store holds afterwards.
package daccept

import (
	"fmt"
	"math/big"
	"regexp"
	"sort"
	"strings"
	"unicode/utf8"

	"verif/internal/abs"
	"verif/internal/core"
	"verif/internal/dedit"
	"verif/internal/dval"
	"verif/internal/fx"

	"github.com/freeconf/yang/node"
	"github.com/freeconf/yang/nodeutil"
	"github.com/freeconf/yang/val"
)

func init() {
	core.Executors["accept"] = execAccept
}

// Elem is what the specification needs to know about one candidate element.
type Elem struct {
	S      string   `json:"s"`
	Len    int      `json:"len"`
	PM     [][]bool `json:"pm"`
	Labels []string `json:"labels"`
	Num    bool     `json:"num"`
	Mem    []MemPM  `json:"mem"`
}

type MemPM struct {
	PM [][]bool `json:"pm"`
}

func matches(levels []abs.Level, s string) [][]bool {
	out := [][]bool{}
	for _, l := range levels {
		row := []bool{}
		for _, p := range l.Pats {
			re, err := regexp.Compile("^(?:" + p.Re + ")$")
			row = append(row, err == nil && re.MatchString(s))
		}
		out = append(out, row)
	}
	return out
}

// Describe computes the facts about a candidate the spec cannot compute itself (string
// length in characters, pattern matches); it does not decide acceptance.
func Describe(n *abs.SNode, s string) Elem {
	e := Elem{S: s, Len: utf8.RuneCountInString(s), PM: matches(n.T.Levels, s), Labels: []string{}, Mem: []MemPM{}}
	if n.T.Base == "bits" {
		e.Labels = strings.Fields(s)
		// canonical form (RFC 7950 9.7.2): names in ascending order of position; names the
		// type does not declare keep their place at the end
		pos := map[string]int{}
		for _, b := range n.Enums {
			pos[b.L] = b.V
		}
		known, unknown := []string{}, []string{}
		for _, l := range e.Labels {
			if _, ok := pos[l]; ok {
				known = append(known, l)
			} else {
				unknown = append(unknown, l)
			}
		}
		sort.Slice(known, func(i, j int) bool { return pos[known[i]] < pos[known[j]] })
		e.S = strings.Join(append(known, unknown...), " ")
	}
	if r, ok := new(big.Rat).SetString(s); ok && r.IsInt() && fx.CanonNumeral(s) == s {
		e.Num = true
	}
	for _, m := range n.T.Members {
		e.Mem = append(e.Mem, MemPM{PM: matches(m.Levels, s)})
	}
	switch n.T.Base {
	case "int8", "int16", "int32", "int64", "uint8", "uint16", "uint32", "uint64", "decimal64":
		e.S = fx.CanonNumeral(s)
	}
	return e
}

// typed builds a typed value directly (Set path); ok=false when the base type cannot
// hold the candidate at all.
func typed(l *dval.Lines, n *abs.SNode, vs []string) (v val.Value, ok bool) {
	defer func() {
		if recover() != nil {
			ok = false
		}
	}()
	b := n.T.Base
	switch b {
	case "string":
		if n.Kind == "leaflist" {
			return val.StringList(vs), true
		}
		return val.String(vs[0]), true
	case "int8", "int16", "int32", "int64", "uint8", "uint16", "uint32", "uint64":
		for _, s := range vs {
			r, isNum := new(big.Rat).SetString(s)
			if !isNum || !r.IsInt() || !l.InRange(b, fx.CanonNumeral(s)) {
				return nil, false
			}
		}
		if n.Kind == "leaflist" {
			switch b {
			case "int32":
				var out []int32
				for _, s := range vs {
					out = append(out, int32(dval.MkValue(b, s).(val.Int32)))
				}
				return val.Int32List(out), true
			case "uint8":
				var out []uint8
				for _, s := range vs {
					out = append(out, uint8(dval.MkValue(b, s).(val.UInt8)))
				}
				return val.UInt8List(out), true
			}
			return nil, false
		}
		return dval.MkValue(b, vs[0]), true
	case "decimal64":
		if n.Kind == "leaf" {
			if _, exact := dval.ExactFloat(vs[0]); exact {
				return dval.MkValue(b, vs[0]), true
			}
		}
	}
	return nil, false
}

func goValue(n *abs.SNode, s string) any {
	// what a caller of SetValue / a map source would naturally pass: text for text
	// types, a Go number for numbers that fit one
	switch n.T.Base {
	case "int8", "int16", "int32", "int64":
		var i int64
		if _, err := fmt.Sscan(s, &i); err == nil && fmt.Sprint(i) == s {
			return i
		}
	case "uint8", "uint16", "uint32", "uint64":
		var u uint64
		if _, err := fmt.Sscan(s, &u); err == nil && fmt.Sprint(u) == s {
			return u
		}
	case "decimal64":
		if f, exact := dval.ExactFloat(s); exact {
			return f
		}
	}
	return s
}

// case {kind:"accept", fixture, store, leaf: [names], vs: [lex], path, pre: [lex] (optional earlier value)}
func execAccept(c core.Case) []core.Rec {
	f, err := fx.Load(c["fixture"].(string))
	if err != nil {
		return []core.Rec{{"chk": "harness", "sig": core.Rec{"err": err.Error()}}}
	}
	lines, err := dval.SpecLines()
	if err != nil {
		return []core.Rec{{"chk": "harness", "sig": core.Rec{"err": err.Error()}}}
	}
	storeName := c["store"].(string)
	kind := fx.Stores[storeName]
	var sp, vs, pre []string
	core.Recode(c["leaf"], &sp)
	core.Recode(c["vs"], &vs)
	core.Recode(c["pre"], &pre)
	if pre == nil {
		pre = []string{}
	}
	path := c["path"].(string)
	n := f.DS.Node(sp)
	parent := abs.Path{}
	for _, name := range sp[:len(sp)-1] {
		parent = parent.Child(abs.S(name))
	}
	lp := parent.Child(abs.S(sp[len(sp)-1]))
	t := abs.NewTree()
	for i := range parent {
		t.Cont = append(t.Cont, parent[:i+1])
	}
	if len(pre) > 0 {
		t.Leaf = append(t.Leaf, abs.LeafItem{P: lp, V: pre})
	}
	root := kind.Build(f, t)
	b := node.NewBrowser(f.Module, kind.Wrap(root))
	xs := []Elem{}
	canon := []string{}
	for _, s := range vs {
		e := Describe(n, s)
		xs = append(xs, e)
		canon = append(canon, e.S)
	}
	res := core.Rec{"ok": false, "err": "", "msg": "", "frame": ""}
	rec := core.Rec{"chk": "accept", "schema": f.Name, "impl": storeName, "leaf": sp, "path": path, "xs": xs, "vs": canon, "pre": pre, "res": res, "stored": []string{},
		"sig": core.Rec{"impl": storeName, "path": path, "leaf": sp[len(sp)-1], "base": n.T.Base, "multipat": multiPat(n), "patlevels": patLevels(n)}}
	src := abs.NewTree()
	src.Cont = append(src.Cont, parent)
	src.Leaf = append(src.Leaf, abs.LeafItem{P: lp, V: vs})
	werr, panicked, frame := dedit.Guard(func() error {
		psel, e := b.Root().Find(fx.URLPath(parent))
		if e != nil || psel == nil {
			return fmt.Errorf("harness: no parent: %v", e)
		}
		switch path {
		case "set":
			v, ok := typed(lines, n, vs)
			if !ok {
				return fmt.Errorf("harness: not constructible")
			}
			sel, e := psel.Find(sp[len(sp)-1])
			if e != nil {
				return e
			}
			return sel.Set(v)
		case "setvalue":
			sel, e := psel.Find(sp[len(sp)-1])
			if e != nil {
				return e
			}
			var gv any
			if n.Kind == "leaflist" {
				gv = vs
			} else {
				gv = goValue(n, vs[0])
			}
			return sel.SetValue(gv)
		case "json":
			nd, e := nodeutil.ReadJSON(fx.JSONDoc(f, src, parent))
			if e != nil {
				return e
			}
			return psel.UpsertFrom(nd)
		case "xml":
			nd, e := fx.XMLSource(f, src, parent)
			if e != nil {
				return e
			}
			return psel.UpsertFrom(nd)
		case "map":
			m := map[string]any{}
			if n.Kind == "leaflist" {
				m[sp[len(sp)-1]] = vs
			} else {
				m[sp[len(sp)-1]] = goValue(n, vs[0])
			}
			return psel.UpsertFrom(nodeutil.ReflectChild(m))
		}
		return fmt.Errorf("harness: unknown path %s", path)
	})
	if werr != nil && strings.HasPrefix(werr.Error(), "harness:") {
		return []core.Rec{{"chk": "skip", "why": werr.Error(), "sig": core.Rec{"impl": storeName}}}
	}
	if panicked {
		res["err"] = "panic"
		res["frame"] = frame
		res["msg"] = fmt.Sprint(werr)
	} else if werr != nil {
		res["err"] = dedit.ErrClass(werr)
		res["msg"] = werr.Error()
	} else {
		res["ok"] = true
	}
	if m := fmt.Sprint(res["msg"]); len(m) > 140 {
		res["msg"] = m[:140]
	}
	post := kind.Project(f, root)
	if v, ok := post.LeafAt(lp); ok {
		st := []string{}
		for _, x := range v {
			switch n.T.Base {
			case "int8", "int16", "int32", "int64", "uint8", "uint16", "uint32", "uint64", "decimal64":
				x = fx.CanonNumeral(x)
			}
			st = append(st, x)
		}
		rec["stored"] = st
	}
	return []core.Rec{rec}
}

// multiPat / patLevels classify the TYPE (input), for known-finding signatures.
func multiPat(n *abs.SNode) bool {
	for _, l := range n.T.Levels {
		if len(l.Pats) > 1 {
			return true
		}
	}
	return false
}

func patLevels(n *abs.SNode) int {
	c := 0
	for _, l := range n.T.Levels {
		if len(l.Pats) > 0 {
			c++
		}
	}
	return c
}
