// Package dedit drives the edit entry points of node.Selection against every
// store kind and source kind (C03 C09 C18) and records pre/op/result/post.
package dedit

import (
	"encoding/json"
	"errors"
	"fmt"
	"os"
	"runtime"
	"sort"
	"strings"

	"verif/internal/abs"
	"verif/internal/core"
	"verif/internal/fx"
	"verif/internal/gen"

	"github.com/freeconf/yang/fc"
	"github.com/freeconf/yang/node"
	"github.com/freeconf/yang/nodeutil"
)

func init() {
	core.Executors["edit"] = execEdit
}

// Op is one edit operation of a case.
type Op struct {
	K   string    `json:"k"`  // upsert insert update delete replace (+ "-into" twins)
	At  abs.Path  `json:"at"` // selection edited
	S   *abs.Tree `json:"s"`  // source tree, absolute paths (nil for delete)
	Src string    `json:"src"`
	// Into: the same edit through the source-side API (UpsertInto / InsertInto / UpdateInto):
	// same meaning, roles of the two selections swapped
	Into bool `json:"into"`
	// Dup: (JSON sources) the first entry of the first list of the payload is written twice
	Dup bool `json:"dup"`
}

// ErrClass classifies an error by errors.Is only, never by message.
func ErrClass(err error) string {
	switch {
	case err == nil:
		return ""
	case errors.Is(err, fc.ConflictError):
		return "conflict"
	case errors.Is(err, fc.NotFoundError):
		return "notfound"
	case errors.Is(err, fc.BadRequestError):
		return "badrequest"
	}
	return "other"
}

// TopFrame names the first library frame of the current panic stack.
func TopFrame() string {
	pc := make([]uintptr, 40)
	n := runtime.Callers(3, pc)
	frames := runtime.CallersFrames(pc[:n])
	for {
		fr, more := frames.Next()
		if strings.Contains(fr.Function, "github.com/freeconf/yang/") {
			return strings.TrimPrefix(fr.Function, "github.com/freeconf/yang/")
		}
		if !more {
			break
		}
	}
	return ""
}

// Guard runs f, converting a panic into ("panic", frame).
func Guard(f func() error) (err error, panicked bool, frame string) {
	defer func() {
		if os.Getenv("VERIF_NOPANIC") != "" {
			return
		}
		if r := recover(); r != nil {
			panicked = true
			frame = TopFrame()
			err = fmt.Errorf("panic: %v", r)
		}
	}()
	err = f()
	return
}

// SourceNode builds the source node for an edit at `at` from tree s.
func SourceNode(f *fx.Fixture, src string, s *abs.Tree, at abs.Path) (node.Node, error) {
	switch src {
	case "json":
		return nodeutil.ReadJSON(fx.JSONDoc(f, s, at))
	case "xml":
		return fx.XMLSource(f, s, at)
	}
	k := fx.Stores[src]
	if k == nil {
		return nil, fmt.Errorf("unknown source kind %s", src)
	}
	root := k.Build(f, gen.WithAncestors(f.DS, s, at))
	b := node.NewBrowser(f.Module, k.Wrap(root))
	sel := b.Root()
	if len(at) > 0 {
		var err error
		sel, err = sel.Find(fx.URLPath(at))
		if err != nil || sel == nil {
			return nil, fmt.Errorf("source store has no node at %s: %v", at, err)
		}
	}
	return sel.Node, nil
}

func atKind(f *fx.Fixture, at abs.Path) string {
	if len(at) == 0 {
		return "root"
	}
	if at.IsEntry() {
		return "entry"
	}
	return f.DS.Node(at.SPath()).Kind
}

func execEdit(c core.Case) []core.Rec {
	fname := c["fixture"].(string)
	storeName := c["store"].(string)
	f, err := fx.Load(fname)
	if err != nil {
		return []core.Rec{{"chk": "harness", "sig": core.Rec{"err": err.Error()}}}
	}
	kind := fx.Stores[storeName]
	pre := abs.TreeFromAny(c["pre"])
	var ops []Op
	core.Recode(c["ops"], &ops)
	root := kind.Build(f, pre)
	var recs []core.Rec
	for i, op := range ops {
		if op.S != nil {
			op.S.Canon()
		}
		if op.At == nil {
			op.At = abs.Path{}
		}
		for j := range op.At {
			if op.At[j].K == nil {
				op.At[j].K = []string{}
			}
		}
		before := kind.Project(f, root)
		rec := core.Rec{"chk": "edit", "schema": fname, "impl": storeName, "src": op.Src, "ordered": kind.Ordered, "srcordered": SrcOrdered(op.Src),
			"pre": before, "op": core.Rec{"k": op.K, "at": op.At, "s": orEmpty(op.S), "dup": false}, "step": i,
			"sig": core.Rec{"impl": storeName, "src": op.Src, "k": op.K, "at": atKind(f, op.At), "into": op.Into}}
		res := core.Rec{"ok": false, "err": "", "frame": "", "msg": ""}
		b := node.NewBrowser(f.Module, kind.Wrap(root))
		sel := b.Root()
		var ferr error
		if len(op.At) > 0 {
			ferr, _, _ = Guard(func() error {
				var e error
				sel, e = sel.Find(fx.URLPath(op.At))
				return e
			})
		}
		if (ferr != nil || sel == nil) && c["history"] == true {
			break // the entry point no longer exists in this history: stop quietly
		}
		if ferr != nil || sel == nil {
			// navigation to an existing node failed: that is C08's subject (checked there on
			// the same fixtures); the edit checks skip the case and count it
			recs = append(recs, core.Rec{"chk": "skip", "why": "entry-point-not-found", "step": i,
				"sig": core.Rec{"impl": storeName, "at": atKind(f, op.At)}})
			break
		}
		var srcNode node.Node
		if op.K == "replace" {
			// ReplaceFrom deletes the selection and inserts the source into its PARENT
			// selection: the source is rooted one level up ({"c":{...}} / {"l":[{...}]})
			srcNode, err = SourceNode(f, op.Src, gen.WithAncestors(f.DS, op.S, op.At), op.At[:len(op.At)-1])
		} else if op.K != "delete" {
			srcNode, err = SourceNode(f, op.Src, op.S, op.At)
			if op.Dup && op.Src == "json" && err == nil {
				if text, ok := dupFirstEntry(fx.JSONDoc(f, op.S, op.At)); ok {
					srcNode, err = nodeutil.ReadJSON(text)
					rec["op"].(core.Rec)["dup"] = true
				}
			}
		}
		if op.K != "delete" {
			if err != nil {
				rec["chk"] = "harness"
				res["err"] = "harness-source: " + err.Error()
				rec["res"] = res
				rec["post"] = before
				recs = append(recs, rec)
				break
			}
		}
		callErr, panicked, frame := Guard(func() error {
			if op.Into && (op.K == "upsert" || op.K == "insert" || op.K == "update") {
				from := sel.Split(srcNode)
				switch op.K {
				case "upsert":
					return from.UpsertInto(sel.Node)
				case "insert":
					return from.InsertInto(sel.Node)
				}
				return from.UpdateInto(sel.Node)
			}
			switch op.K {
			case "upsert":
				return sel.UpsertFrom(srcNode)
			case "insert":
				return sel.InsertFrom(srcNode)
			case "update":
				return sel.UpdateFrom(srcNode)
			case "replace":
				return sel.ReplaceFrom(srcNode)
			case "delete":
				return sel.Delete()
			}
			return fmt.Errorf("unknown op %s", op.K)
		})
		if panicked {
			res["err"] = "panic"
			res["frame"] = frame
			res["msg"] = fmt.Sprint(callErr)
		} else if callErr != nil {
			res["err"] = ErrClass(callErr)
			res["msg"] = brief(callErr.Error())
		} else {
			res["ok"] = true
		}
		rec["res"] = res
		post := kind.Project(f, root)
		rec["post"] = post
		recs = append(recs, rec)
		if c["verifyfind"] == true {
			recs = append(recs, findAll(f, kind, storeName, root, post, op, i))
		}
	}
	return recs
}

func orEmpty(t *abs.Tree) *abs.Tree {
	if t == nil {
		return abs.NewTree()
	}
	return t
}

// SrcOrdered reports whether a source kind presents list entries in a defined
// (document / slice) order; map-backed sources present them in key order.
func SrcOrdered(src string) bool {
	switch src {
	case "json", "xml", "":
		return true
	}
	if k := fx.Stores[src]; k != nil {
		return k.Ordered
	}
	return false
}

// findAll navigates, after an operation, to every container / list / entry the
// store now holds and to the node a delete addressed, and records what Find said.
func findAll(f *fx.Fixture, kind *fx.StoreKind, storeName string, root any, post *abs.Tree, op Op, step int) core.Rec {
	b := node.NewBrowser(f.Module, kind.Wrap(root))
	type fr struct {
		P     abs.Path `json:"p"`
		Found bool     `json:"found"`
		Err   string   `json:"err"`
		Key   []string `json:"key"`
	}
	probe := func(p abs.Path) fr {
		out := fr{P: p, Key: []string{}}
		var sel *node.Selection
		err, panicked, _ := Guard(func() error {
			var e error
			sel, e = b.Root().Find(fx.URLPath(p))
			return e
		})
		if panicked {
			out.Err = "panic"
		} else if err != nil {
			out.Err = ErrClass(err)
		} else if sel != nil {
			out.Found = true
			for _, k := range sel.Key() {
				out.Key = append(out.Key, k.String())
			}
		}
		return out
	}
	results := []fr{}
	for _, p := range post.Cont {
		results = append(results, probe(p))
	}
	gone := []fr{}
	if op.K == "delete" && len(op.At) > 0 {
		gone = append(gone, probe(op.At))
	}
	return core.Rec{"chk": "findall", "schema": f.Name, "impl": storeName, "tree": post, "present": results, "gone": gone,
		"step": fmt.Sprintf("%d-find", step), "sig": core.Rec{"impl": storeName, "k": op.K, "at": atKind(f, op.At)}}
}

func brief(s string) string {
	if len(s) > 160 {
		return s[:160]
	}
	return s
}

// dupFirstEntry writes the first entry of the first non-empty list of a JSON document twice.
func dupFirstEntry(text string) (string, bool) {
	dec := json.NewDecoder(strings.NewReader(text))
	dec.UseNumber()
	var doc any
	if err := dec.Decode(&doc); err != nil {
		return text, false
	}
	done := false
	var walk func(v any) any
	walk = func(v any) any {
		switch x := v.(type) {
		case map[string]any:
			keys := make([]string, 0, len(x))
			for k := range x {
				keys = append(keys, k)
			}
			sort.Strings(keys)
			for _, k := range keys {
				x[k] = walk(x[k])
			}
			return x
		case []any:
			if !done && len(x) > 0 {
				if _, isObj := x[0].(map[string]any); isObj {
					done = true
					return append([]any{x[0]}, x...)
				}
			}
			return x
		}
		return v
	}
	doc = walk(doc)
	b, err := json.Marshal(doc)
	return string(b), done && err == nil
}
