package dval

import (
	"encoding/json"
	"fmt"
	"sort"
	"strings"
	"sync"

	"verif/internal/core"

	"github.com/freeconf/yang/meta"
	"github.com/freeconf/yang/node"
	"github.com/freeconf/yang/parser"
	"github.com/freeconf/yang/val"
)

func init() {
	core.Executors["convx"] = execConvX
}

const convxModule = `module cx {
  namespace "urn:cx"; prefix cx; revision 2024-01-01;
  identity ibase;
  identity d1 { base ibase; }
  identity d2 { base d1; }
  identity other;
  leaf b { type boolean; }
  leaf s { type string; }
  leaf bin { type binary; }
  leaf en { type enumeration { enum zeta { value 0; } enum one; enum alpha { value 5; } } }
  leaf bt { type bits { bit b0 { position 0; } bit b1; bit b5 { position 5; } } }
  leaf idr { type identityref { base ibase; } }
  leaf un { type union { type int32; type boolean; } }
  leaf us { type union { type int32; type string; } }
  leaf-list ls { type string; }
  leaf-list len { type enumeration { enum zeta { value 0; } enum one; enum alpha { value 5; } } }
  leaf-list lb { type boolean; }
}`

var (
	cxOnce sync.Once
	cxMod  *meta.Module
	cxErr  error
)

// ConvXSource builds the Go value a case describes: {"go": kind, "v": text or list}
func ConvXSource(d map[string]any) any {
	s, _ := d["v"].(string)
	var list []string
	if xs, ok := d["l"].([]any); ok {
		for _, x := range xs {
			list = append(list, fmt.Sprint(x))
		}
	}
	if xs, ok := d["l"].([]string); ok {
		list = xs
	}
	switch d["go"] {
	case "string":
		return s
	case "bool":
		return s == "true"
	case "int":
		var n int
		fmt.Sscan(s, &n)
		return n
	case "int64":
		var n int64
		fmt.Sscan(s, &n)
		return n
	case "uint64":
		var n uint64
		fmt.Sscan(s, &n)
		return n
	case "float64":
		var f float64
		fmt.Sscan(s, &f)
		return f
	case "jsonnumber":
		return json.Number(s)
	case "bytes":
		return []byte(s)
	case "strings":
		if list == nil {
			list = []string{}
		}
		return list
	case "anys":
		out := []any{}
		for _, x := range list {
			out = append(out, x)
		}
		return out
	case "bools":
		out := []bool{}
		for _, x := range list {
			out = append(out, x == "true")
		}
		return out
	case "ints":
		out := []int{}
		for _, x := range list {
			var n int
			fmt.Sscan(x, &n)
			out = append(out, n)
		}
		return out
	}
	return s
}

// case {kind:"convx", leaf, fmt, src:{go,v|l}, member, want}
func execConvX(c core.Case) []core.Rec {
	cxOnce.Do(func() { cxMod, cxErr = parser.LoadModuleFromString(nil, convxModule) })
	if cxErr != nil {
		return []core.Rec{{"chk": "harness", "sig": core.Rec{"err": cxErr.Error()}}}
	}
	leaf, _ := c["leaf"].(string)
	src, _ := c["src"].(map[string]any)
	want, _ := c["want"].(string)
	member, _ := c["member"].(bool)
	l, _ := cxMod.DataDefinition(leaf).(meta.Leafable)
	if l == nil {
		return []core.Rec{{"chk": "harness", "sig": core.Rec{"err": "no leaf " + leaf}}}
	}
	rec := core.Rec{"chk": "convx", "fmt": c["fmt"], "kind": fmt.Sprint(src["go"]), "member": member, "exact": true, "panic": false, "ok": false,
		"want": want, "val": "", "back": "", "msg": "",
		"sig": core.Rec{"fmt": c["fmt"], "skind": src["go"], "member": member, "src": fmt.Sprint(src["v"], src["l"])}}
	func() {
		defer func() {
			if r := recover(); r != nil {
				rec["panic"] = true
				rec["msg"] = fmt.Sprint(r)
			}
		}()
		v, err := node.NewValue(l.Type(), ConvXSource(src))
		if err != nil {
			rec["msg"] = err.Error()
			return
		}
		if v == nil {
			rec["msg"] = "nil value"
			return
		}
		rec["ok"] = true
		rec["val"] = canonX(v)
		// read back: what Value() hands out, rendered the same way
		rec["back"] = canonBack(v)
	}()
	return []core.Rec{rec}
}

// canonX renders a typed value as the canonical text of what it denotes.
func canonX(v val.Value) string {
	switch x := v.(type) {
	case val.Enum:
		return x.Label
	case val.EnumList:
		return strings.Join(x.Labels(), " ")
	case val.IdentRef:
		return x.Label
	case val.Bits:
		// a set of bits: the order of the names is not part of the value
		ls := append([]string{}, x.Labels...)
		sort.Strings(ls)
		return strings.Join(ls, " ")
	case val.StringList:
		return strings.Join([]string(x), "\x1f")
	case val.BoolList:
		var out []string
		for _, b := range x {
			out = append(out, fmt.Sprint(b))
		}
		return strings.Join(out, " ")
	}
	return v.String()
}

func canonBack(v val.Value) string {
	switch x := v.Value().(type) {
	case string:
		return x
	case bool:
		return fmt.Sprint(x)
	case []string:
		if _, isBits := v.(val.Bits); isBits {
			ls := append([]string{}, x...)
			sort.Strings(ls)
			return strings.Join(ls, " ")
		}
		if _, isEnums := v.(val.EnumList); isEnums {
			return strings.Join(x, " ")
		}
		return strings.Join(x, "\x1f")
	case []bool:
		var out []string
		for _, b := range x {
			out = append(out, fmt.Sprint(b))
		}
		return strings.Join(out, " ")
	case []byte:
		return v.String()
	case val.Enum:
		return x.Label
	case val.IdentRef:
		return x.Label
	case int, int32, int64:
		return fmt.Sprint(x)
	}
	return canonX(v)
}
