package dval

import (
	"encoding/json"
	"fmt"
	"math"
	"math/big"
	"reflect"
	"strconv"
	"strings"

	"verif/internal/core"

	"github.com/freeconf/yang/val"
)

// SourceKinds are the Go kinds a caller may hand to val.Conv.
var SourceKinds = []string{"int8", "int16", "int32", "int64", "int", "uint8", "uint16", "uint32", "uint64", "uint", "float32", "float64", "string", "jsonnumber"}

// StringForms are lexical variants of a numeric string; only "plain" is an
// exact, unambiguous denotation.
var StringForms = []string{"plain", "plus", "lead-space", "trail-space", "lead-zero"}

// MkSource builds a Go value of the given kind denoting point p exactly, or
// reports that the kind cannot denote it.
func MkSource(kind, p, form string) (any, bool) {
	r := Rat(p)
	isInt := r.IsInt()
	n := r.Num()
	inI := func(lo, hi int64) bool {
		return isInt && n.IsInt64() && n.Int64() >= lo && n.Int64() <= hi
	}
	inU := func(hi uint64) bool { return isInt && n.IsUint64() && n.Uint64() <= hi }
	switch kind {
	case "int8":
		if inI(math.MinInt8, math.MaxInt8) {
			return int8(n.Int64()), true
		}
	case "int16":
		if inI(math.MinInt16, math.MaxInt16) {
			return int16(n.Int64()), true
		}
	case "int32":
		if inI(math.MinInt32, math.MaxInt32) {
			return int32(n.Int64()), true
		}
	case "int64":
		if inI(math.MinInt64, math.MaxInt64) {
			return n.Int64(), true
		}
	case "int":
		if inI(math.MinInt64, math.MaxInt64) {
			return int(n.Int64()), true
		}
	case "uint8":
		if inU(math.MaxUint8) {
			return uint8(n.Uint64()), true
		}
	case "uint16":
		if inU(math.MaxUint16) {
			return uint16(n.Uint64()), true
		}
	case "uint32":
		if inU(math.MaxUint32) {
			return uint32(n.Uint64()), true
		}
	case "uint64":
		if inU(math.MaxUint64) {
			return n.Uint64(), true
		}
	case "uint":
		if inU(math.MaxUint64) {
			return uint(n.Uint64()), true
		}
	case "float64":
		f, exact := r.Float64()
		if exact {
			if form == "negzero" {
				if f != 0 {
					return nil, false
				}
				return math.Copysign(0, -1), true
			}
			return f, true
		}
	case "float32":
		f, exact := r.Float32()
		if exact {
			return f, true
		}
	case "jsonnumber":
		// what the JSON reader hands over for a number in a document (decoder.UseNumber)
		if form == "" || form == "plain" {
			return json.Number(p), true
		}
	case "string":
		switch form {
		case "", "plain":
			return p, true
		case "plus":
			if r.Sign() >= 0 {
				return "+" + p, true
			}
		case "lead-space":
			return " " + p, true
		case "trail-space":
			return p + " ", true
		case "lead-zero":
			if r.Sign() >= 0 {
				return "0" + p, true
			}
			return "-0" + strings.TrimPrefix(p, "-"), true
		}
	}
	return nil, false
}

// NumeralOf renders what a Go number returned by the library denotes.
func NumeralOf(v any) (string, bool) {
	rv := reflect.ValueOf(v)
	switch {
	case rv.CanInt():
		return big.NewInt(rv.Int()).String(), true
	case rv.CanUint():
		return new(big.Int).SetUint64(rv.Uint()).String(), true
	case rv.CanFloat():
		f := rv.Float()
		if math.IsInf(f, 0) || math.IsNaN(f) {
			return fmt.Sprint(f), true
		}
		r := new(big.Rat)
		r.SetFloat64(f)
		return Numeral(r), true
	}
	return "", false
}

// numeral of the textual form (String()) of a numeric value
func numeralOfText(s string) string {
	r, ok := new(big.Rat).SetString(strings.TrimSpace(s))
	if !ok {
		return "?" + s
	}
	return Numeral(r)
}

var fmtByName = map[string]val.Format{
	"int8": val.FmtInt8, "int16": val.FmtInt16, "int32": val.FmtInt32, "int64": val.FmtInt64,
	"uint8": val.FmtUInt8, "uint16": val.FmtUInt16, "uint32": val.FmtUInt32, "uint64": val.FmtUInt64,
	"decimal64": val.FmtDecimal64, "string": val.FmtString, "boolean": val.FmtBool, "binary": val.FmtBinary,
}

func execConv(c core.Case) []core.Rec {
	f := c["fmt"].(string)
	kind := c["skind"].(string)
	p := c["pt"].(string)
	form, _ := c["form"].(string)
	if form == "" {
		form = "plain"
	}
	list, _ := c["list"].(bool)
	rec := core.Rec{"chk": "conv", "fmt": f, "skind": kind, "pt": p, "form": form, "list": list,
		"exact": form == "plain" || form == "negzero", "panic": false, "ok": false, "val": "", "back": "",
		"sig": core.Rec{"fmt": f, "skind": kind, "form": form, "list": list, "mag": magnitude(p)}}
	src, ok := MkSource(kind, p, form)
	if !ok {
		rec["chk"] = "harness"
		return []core.Rec{rec}
	}
	target := fmtByName[f]
	if list {
		// one-element slice of the source kind, list format
		sl := reflect.MakeSlice(reflect.SliceOf(reflect.TypeOf(src)), 1, 1)
		sl.Index(0).Set(reflect.ValueOf(src))
		src = sl.Interface()
		target = target.List()
	}
	var v val.Value
	var err error
	pn, _ := PanicInfo(func() { v, err = val.Conv(target, src) })
	rec["panic"] = pn
	if !pn && err == nil && v != nil {
		rec["ok"] = true
		if list {
			l, isList := v.(val.Listable)
			if !isList || l.Len() != 1 {
				rec["val"] = "?not-a-one-element-list"
				return []core.Rec{rec}
			}
			v = l.Item(0)
		}
		rec["val"] = numeralOfText(v.String())
		if f == "decimal64" {
			// the text of a decimal64 is the shortest numeral that reads back as the same
			// binary64: what it denotes is what reading it gives
			if x, perr := strconv.ParseFloat(strings.TrimSpace(v.String()), 64); perr == nil {
				rec["val"], _ = NumeralOf(x)
			}
		}
		if s, ok := NumeralOf(v.Value()); ok {
			rec["back"] = s
		} else {
			rec["back"] = fmt.Sprintf("?%T", v.Value())
		}
	}
	return []core.Rec{rec}
}

// ConvCases enumerates format x source kind x point (x string form).
func ConvCases(l *Lines, emit func(core.Case), sample func() bool) {
	fmts := []string{"int8", "int16", "int32", "int64", "uint8", "uint16", "uint32", "uint64", "decimal64"}
	for _, f := range fmts {
		for _, k := range SourceKinds {
			for _, p := range l.Num {
				forms := []string{"plain"}
				if k == "string" {
					forms = StringForms
				}
				if k == "float64" && p == "0" {
					forms = []string{"plain", "negzero"}
				}
				for _, form := range forms {
					if _, ok := MkSource(k, p, form); !ok {
						continue
					}
					for _, list := range []bool{false, true} {
						if list && !sample() {
							continue
						}
						emit(core.Case{"kind": "conv", "fmt": f, "skind": k, "pt": p, "form": form, "list": list})
					}
				}
			}
		}
	}
}

// magnitude classifies the input point (not the outcome) for finding signatures.
func magnitude(p string) string {
	r := new(big.Rat).Abs(Rat(p))
	if r.Cmp(Rat("9007199254740992")) > 0 {
		return "beyond-2^53"
	}
	return "within-2^53"
}
