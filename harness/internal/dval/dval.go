// Package dval drives val.Compare/Equal/CompareVals/Conv and node.NewValue
// (C10, C17).  It constructs typed values and source values from the points of
// the specification's exact lines (spec/Values.tla), calls the real code and
// records what came back.  It decides nothing.
package dval

import (
	"encoding/json"
	"fmt"
	"math"
	"math/big"
	"os"
	"path/filepath"
	"strings"
	"sync"
	"time"

	"verif/internal/core"

	"github.com/freeconf/yang/val"
)

// Lines are the value lines as defined by the specification.
type Lines struct {
	Num     []string          `json:"num"`
	Str     []string          `json:"str"`
	Bool    []string          `json:"bool"`
	Enum    []string          `json:"enum"`
	EnumVal []int             `json:"enumval"`
	Frac    []string          `json:"frac"`
	Fmts    []string          `json:"fmts"`
	Lo      map[string]string `json:"lo"`
	Hi      map[string]string `json:"hi"`
}

var (
	linesOnce sync.Once
	lines     *Lines
	linesErr  error
)

// SpecLines obtains the lines from the specification through TLC and
// self-checks them with math/big (strictly ascending; Fractional exact).
func SpecLines() (*Lines, error) {
	linesOnce.Do(func() {
		if p := os.Getenv("VERIF_LINES"); p != "" {
			b, err := os.ReadFile(p)
			if err == nil {
				var l Lines
				if json.Unmarshal(b, &l) == nil && len(l.Num) > 0 {
					lines = &l
					return
				}
			}
		}
		dir, err := os.MkdirTemp("", "vlines-")
		if err != nil {
			linesErr = err
			return
		}
		defer os.RemoveAll(dir)
		out := filepath.Join(dir, "lines.json")
		r, err := core.RunTLC(core.TLCRun{Module: "ValuesExport", Cfg: "Eval.cfg", Env: map[string]string{"OUT": out}, Workers: 1, Timeout: 2 * time.Minute})
		if err != nil {
			linesErr = err
			return
		}
		b, err := os.ReadFile(out)
		if err != nil {
			linesErr = fmt.Errorf("ValuesExport did not write lines: %v\n%s", err, r.Tail(20))
			return
		}
		var l Lines
		if err := json.Unmarshal(b, &l); err != nil {
			linesErr = err
			return
		}
		if err := l.selfCheck(); err != nil {
			linesErr = err
			return
		}
		lines = &l
		// hand the lines to worker processes
		if f, err := os.CreateTemp("", "vlines-*.json"); err == nil {
			f.Write(b)
			f.Close()
			os.Setenv("VERIF_LINES", f.Name())
			LinesTmp = f.Name()
		}
	})
	return lines, linesErr
}

// LinesTmp is removed by the caller at exit.
var LinesTmp string

func Rat(s string) *big.Rat {
	r, ok := new(big.Rat).SetString(s)
	if !ok {
		panic("bad numeral " + s)
	}
	return r
}

// Numeral renders an exact rational the way the spec writes points.
func Numeral(r *big.Rat) string {
	if r.IsInt() {
		return r.Num().String()
	}
	// finite decimals only on the line
	for d := 1; d <= 20; d++ {
		s := r.FloatString(d)
		if back, ok := new(big.Rat).SetString(s); ok && back.Cmp(r) == 0 {
			return s
		}
	}
	return r.FloatString(25)
}

func (l *Lines) selfCheck() error {
	for i := 1; i < len(l.Num); i++ {
		if Rat(l.Num[i-1]).Cmp(Rat(l.Num[i])) >= 0 {
			return fmt.Errorf("spec NumLine not strictly ascending at %s, %s", l.Num[i-1], l.Num[i])
		}
	}
	frac := map[string]bool{}
	for _, f := range l.Frac {
		frac[f] = true
	}
	for _, p := range l.Num {
		if Numeral(Rat(p)) != p {
			return fmt.Errorf("spec numeral %s is not canonical", p)
		}
		if Rat(p).IsInt() == frac[p] {
			return fmt.Errorf("spec Fractional wrong about %s", p)
		}
	}
	for i := 1; i < len(l.Str); i++ {
		a, b := []rune(l.Str[i-1]), []rune(l.Str[i])
		if cmpRunes(a, b) >= 0 {
			return fmt.Errorf("spec StrLine not ascending in code point order at %q, %q", l.Str[i-1], l.Str[i])
		}
	}
	bounds := map[string][2]string{
		"int8": {fmt.Sprint(math.MinInt8), fmt.Sprint(math.MaxInt8)}, "int16": {fmt.Sprint(math.MinInt16), fmt.Sprint(math.MaxInt16)},
		"int32": {fmt.Sprint(math.MinInt32), fmt.Sprint(math.MaxInt32)}, "int64": {fmt.Sprint(math.MinInt64), fmt.Sprint(math.MaxInt64)},
		"uint8": {"0", fmt.Sprint(math.MaxUint8)}, "uint16": {"0", fmt.Sprint(math.MaxUint16)},
		"uint32": {"0", fmt.Sprint(math.MaxUint32)}, "uint64": {"0", fmt.Sprint(uint64(math.MaxUint64))},
	}
	for f, b := range bounds {
		if l.Lo[f] != b[0] || l.Hi[f] != b[1] {
			return fmt.Errorf("spec bounds of %s are %s..%s, RFC 7950 says %s..%s", f, l.Lo[f], l.Hi[f], b[0], b[1])
		}
	}
	return nil
}

func cmpRunes(a, b []rune) int {
	for i := 0; i < len(a) && i < len(b); i++ {
		if a[i] != b[i] {
			if a[i] < b[i] {
				return -1
			}
			return 1
		}
	}
	return len(a) - len(b)
}

func (l *Lines) InRange(f, p string) bool {
	r := Rat(p)
	return r.Cmp(Rat(l.Lo[f])) >= 0 && r.Cmp(Rat(l.Hi[f])) <= 0
}

// MkValue constructs a typed value directly (not through the library's
// conversion code) for an in-range integral point.
func MkValue(f string, p string) val.Value {
	switch f {
	case "string":
		return val.String(p)
	case "boolean":
		return val.Bool(p == "true")
	case "identityref":
		return val.IdentRef{Label: p}
	case "enumeration":
		l, _ := SpecLines()
		for i, lab := range l.Enum {
			if lab == p {
				return val.Enum{Id: l.EnumVal[i], Label: lab}
			}
		}
		panic("unknown enum " + p)
	case "decimal64":
		f, _ := new(big.Float).SetRat(Rat(p)).Float64()
		return val.Decimal64(f)
	}
	r := Rat(p)
	if !r.IsInt() {
		panic("non integral " + p)
	}
	n := r.Num()
	switch f {
	case "int8":
		return val.Int8(int8(n.Int64()))
	case "int16":
		return val.Int16(int16(n.Int64()))
	case "int32":
		return val.Int32(int32(n.Int64()))
	case "int64":
		return val.Int64(n.Int64())
	case "uint8":
		return val.UInt8(uint8(n.Uint64()))
	case "uint16":
		return val.UInt16(uint16(n.Uint64()))
	case "uint32":
		return val.UInt32(uint32(n.Uint64()))
	case "uint64":
		return val.UInt64(n.Uint64())
	}
	panic("unknown format " + f)
}

// ExactFloat reports whether the point is exactly a float64.
func ExactFloat(p string) (float64, bool) {
	r := Rat(p)
	f, exact := r.Float64()
	return f, exact
}

// PanicInfo runs f and reports a recovered panic with its top library frame.
func PanicInfo(f func()) (panicked bool, msg string) {
	defer func() {
		if r := recover(); r != nil {
			panicked = true
			msg = fmt.Sprint(r)
			if len(msg) > 200 {
				msg = msg[:200]
			}
		}
	}()
	f()
	return
}

func sgn(n int) int {
	if n < 0 {
		return -1
	}
	if n > 0 {
		return 1
	}
	return 0
}

func init() {
	core.Executors["cmp"] = execCmp
	core.Executors["cmpvals"] = execCmpVals
	core.Executors["conv"] = execConv
}

func execCmp(c core.Case) []core.Rec {
	f := c["fmt"].(string)
	a, b := c["a"].(string), c["b"].(string)
	rec := core.Rec{"chk": "cmp", "fmt": f, "a": a, "b": b, "panic": false, "cmp": 0, "eq": false,
		"sig": core.Rec{"fmt": f}}
	va, vb := MkValue(f, a), MkValue(f, b)
	p, _ := PanicInfo(func() {
		rec["cmp"] = sgn(va.(val.Comparable).Compare(vb.(val.Comparable)))
		rec["eq"] = val.Equal(va, vb)
	})
	rec["panic"] = p
	return []core.Rec{rec}
}

func toStrs(v any) []string {
	var out []string
	for _, x := range v.([]any) {
		out = append(out, x.(string))
	}
	return out
}

func execCmpVals(c core.Case) []core.Rec {
	fmts, a, b := toStrs(c["fmts"]), toStrs(c["a"]), toStrs(c["b"])
	rec := core.Rec{"chk": "cmpvals", "fmts": fmts, "a": a, "b": b, "panic": false, "cmp": 0, "eq": false,
		"sig": core.Rec{"fmts": strings.Join(fmts, ",")}}
	var va, vb []val.Value
	for i := range fmts {
		va = append(va, MkValue(fmts[i], a[i]))
		vb = append(vb, MkValue(fmts[i], b[i]))
	}
	p, _ := PanicInfo(func() {
		rec["cmp"] = sgn(val.CompareVals(va, vb))
		rec["eq"] = val.EqualVals(va, vb)
	})
	rec["panic"] = p
	return []core.Rec{rec}
}
