package plans

import (
	"fmt"
	"math/rand"
	"os"
	"path/filepath"
	"sort"
	"strings"
	"time"

	"verif/internal/core"
	"verif/internal/dschema"
	"verif/internal/fx"
)

func init() {
	Registry["C14"] = planC14
}

var substPool = []string{" {", " }", ";", " \"", " leaf", " type", " x", " 256", " +", " uses", " import", " /*", " //", " '"}

// corpus: the repository's own test modules and the fixtures.
func loadCorpus() map[string]string {
	out := map[string]string{}
	filepath.Walk(core.RepoDir+"/parser/testdata", func(path string, info os.FileInfo, err error) error {
		if err == nil && !info.IsDir() && strings.HasSuffix(path, ".yang") {
			if b, e := os.ReadFile(path); e == nil && len(b) < 20000 {
				out["repo:"+strings.TrimPrefix(path, core.RepoDir+"/parser/testdata/")] = string(b)
			}
		}
		return nil
	})
	for name, y := range fx.Sources {
		out["fixture:"+name] = y
	}
	return out
}

func nested(depth int) string {
	var sb strings.Builder
	sb.WriteString("module deep { namespace \"urn:d\"; prefix \"d\"; revision 2024-01-01;\n")
	for i := 0; i < depth; i++ {
		fmt.Fprintf(&sb, "container c%d {", i)
	}
	sb.WriteString(" leaf x { type string; } ")
	sb.WriteString(strings.Repeat("}", depth))
	sb.WriteString("\n}")
	return sb.String()
}

func concat(parts int) string {
	var ps []string
	for i := 0; i < parts; i++ {
		ps = append(ps, fmt.Sprintf("\"p%d \"", i))
	}
	return "module cc { namespace \"urn:c\"; prefix \"c\"; revision 2024-01-01;\n description " + strings.Join(ps, "\n  + ") + ";\n leaf x { type string; } }"
}

type special struct {
	Name, Shape, Text, Main, Fault string
	Mods                           map[string]string
}

func specials() []special {
	hdr := func(n string) string {
		return "module " + n + " { namespace \"urn:" + n + "\"; prefix \"" + n + "\"; revision 2024-01-01;\n"
	}
	return []special{
		{Name: "line-comment-at-eof", Shape: "pathological", Text: hdr("a") + " leaf x { type string; } }\n// trailing comment without newline"},
		{Name: "block-comment-unterminated", Shape: "pathological", Text: hdr("a") + " leaf x { type string; } } /* never closed"},
		{Name: "string-unterminated", Shape: "pathological", Text: hdr("a") + " description \"never closed; leaf x { type string; } }"},
		{Name: "empty", Shape: "pathological", Text: ""},
		{Name: "whitespace-only", Shape: "pathological", Text: "  \n\t "},
		{Name: "nul-bytes", Shape: "pathological", Text: "module a\x00 { namespace \"urn:a\"; prefix a; }"},
		{Name: "invalid-utf8", Shape: "pathological", Text: hdr("a") + " description \"\xff\xfe\"; leaf x { type string; } }"},
		{Name: "nesting-100", Shape: "valid", Text: nested(100)},
		{Name: "nesting-255", Shape: "pathological", Text: nested(255)},
		{Name: "nesting-257", Shape: "pathological", Text: nested(257)},
		{Name: "nesting-1000", Shape: "pathological", Text: nested(1000)},
		{Name: "concat-30", Shape: "valid", Text: concat(30)},
		{Name: "concat-40", Shape: "pathological", Text: concat(40)},
		{Name: "concat-200", Shape: "pathological", Text: concat(200)},
		{Name: "self-import", Shape: "cycle", Main: "a", Mods: map[string]string{"a": hdr("a") + " import a { prefix me; } leaf x { type string; } }"}},
		{Name: "mutual-import", Shape: "cycle", Main: "a", Mods: map[string]string{
			"a": hdr("a") + " import b { prefix b; } leaf x { type string; } }",
			"b": hdr("b") + " import a { prefix a; } leaf y { type string; } }"}},
		{Name: "self-include", Shape: "cycle", Main: "a", Mods: map[string]string{"a": hdr("a") + " include a; leaf x { type string; } }"}},
		{Name: "typedef-self", Shape: "cycle", Text: hdr("a") + " typedef t { type t; } leaf x { type t; } }"},
		{Name: "typedef-mutual", Shape: "cycle", Text: hdr("a") + " typedef t { type u; } typedef u { type t; } leaf x { type t; } }"},
		{Name: "grouping-self", Shape: "cycle", Text: hdr("a") + " grouping g { container c { uses g; } } uses g; }"},
		{Name: "grouping-mutual", Shape: "cycle", Text: hdr("a") + " grouping g { container c { uses h; } } grouping h { container d { uses g; } } uses g; }"},
		{Name: "identity-self", Shape: "cycle", Text: hdr("a") + " identity i { base i; } leaf x { type identityref { base i; } } }"},
		{Name: "identity-mutual", Shape: "cycle", Text: hdr("a") + " identity i { base j; } identity j { base i; } leaf x { type identityref { base i; } } }"},
		{Name: "leafref-self", Shape: "pathological", Text: hdr("a") + " leaf x { type leafref { path \"../x\"; } } }"},
		{Name: "leafref-mutual", Shape: "pathological", Text: hdr("a") + " leaf x { type leafref { path \"../y\"; } } leaf y { type leafref { path \"../x\"; } } }"},
		{Name: "import-nil-opener", Shape: "opener-fault", Fault: "nil-opener", Text: hdr("a") + " import b { prefix b; } leaf x { type string; } }"},
		{Name: "import-missing", Shape: "opener-fault", Fault: "missing", Text: hdr("a") + " import b { prefix b; } leaf x { type string; } }"},
		{Name: "import-open-error", Shape: "opener-fault", Fault: "error", Text: hdr("a") + " import b { prefix b; } leaf x { type string; } }"},
		{Name: "import-read-error", Shape: "opener-fault", Fault: "read-error", Text: hdr("a") + " import b { prefix b; } leaf x { type string; } }"},
		{Name: "include-missing", Shape: "opener-fault", Fault: "missing", Text: hdr("a") + " include s; leaf x { type string; } }"},
		{Name: "include-gets-module", Shape: "opener-fault", Main: "a", Mods: map[string]string{"a": hdr("a") + " include s; leaf x { type string; } }", "s": hdr("s") + " leaf y { type string; } }"}},
		{Name: "import-gets-submodule", Shape: "opener-fault", Main: "a", Mods: map[string]string{"a": hdr("a") + " import s { prefix s; } leaf x { type string; } }",
			"s": "submodule s { belongs-to a { prefix a; } leaf y { type string; } }"}},
		{Name: "augment-missing-target", Shape: "pathological", Text: hdr("a") + " augment \"/nope\" { leaf x { type string; } } }"},
		{Name: "deviation-missing-target", Shape: "pathological", Text: hdr("a") + " deviation /nope { deviate not-supported; } }"},
		{Name: "uses-missing-grouping", Shape: "pathological", Text: hdr("a") + " uses nope; }"},
		{Name: "type-missing", Shape: "pathological", Text: hdr("a") + " leaf x { type nope; } }"},
		{Name: "key-missing-leaf", Shape: "pathological", Text: hdr("a") + " list l { key \"nope\"; leaf k { type string; } } }"},
		{Name: "huge-number", Shape: "pathological", Text: hdr("a") + " list l { key k; leaf k { type string; } max-elements 99999999999999999999; } }"},
		{Name: "range-garbage", Shape: "pathological", Text: hdr("a") + " leaf x { type int32 { range \"a..b|..\"; } } }"},
		{Name: "pattern-garbage", Shape: "pathological", Text: hdr("a") + " leaf x { type string { pattern \"([\"; } } }"},
		{Name: "refine-missing", Shape: "pathological", Text: hdr("a") + " grouping g { leaf l { type string; } } uses g { refine nope { default \"x\"; } } }"},
		{Name: "default-wrong-type", Shape: "pathological", Text: hdr("a") + " leaf x { type int32; default \"abc\"; } }"},
		{Name: "enum-duplicate", Shape: "pathological", Text: hdr("a") + " leaf x { type enumeration { enum a; enum a; } } }"},
		{Name: "revision-weird", Shape: "pathological", Text: "module a { namespace \"urn:a\"; prefix a; revision \"\"; revision x { description \"d\"; } leaf x { type string; } }"},
		{Name: "extension-70-args", Shape: "pathological", Text: hdr("a") + " a:e " + strings.Repeat("x ", 70) + "; }"},
		{Name: "only-braces", Shape: "pathological", Text: "{{{{}}}}"},
		{Name: "module-no-body", Shape: "pathological", Text: "module a"},
		{Name: "unions-empty", Shape: "pathological", Text: hdr("a") + " leaf x { type union; } }"},
		{Name: "leafref-no-path", Shape: "pathological", Text: hdr("a") + " leaf x { type leafref; } }"},
		{Name: "identityref-no-base", Shape: "pathological", Text: hdr("a") + " leaf x { type identityref; } }"},
		{Name: "bits-no-bit", Shape: "pathological", Text: hdr("a") + " leaf x { type bits; } }"},
		{Name: "leafref-to-container", Shape: "pathological", Text: hdr("a") + " container c { leaf i { type string; } } leaf x { type leafref { path \"../c\"; } } }"},
		{Name: "leafref-to-list", Shape: "pathological", Text: hdr("a") + " list l { key k; leaf k { type string; } } leaf x { type leafref { path \"../l\"; } } }"},
		{Name: "leafref-to-choice-member", Shape: "pathological", Text: hdr("a") + " choice c { leaf i { type string; } } leaf x { type leafref { path \"../i\"; } } }"},
		{Name: "deviate-max-elements-on-leaf", Shape: "pathological", Text: hdr("a") + " leaf x { type string; } deviation /x { deviate add { max-elements 3; } } }"},
		{Name: "deviate-min-elements-on-leaf", Shape: "pathological", Text: hdr("a") + " leaf x { type string; } deviation /x { deviate add { min-elements 3; } } }"},
		{Name: "deviate-unique-on-leaf", Shape: "pathological", Text: hdr("a") + " leaf x { type string; } deviation /x { deviate add { unique \"y\"; } } }"},
		{Name: "deviate-default-on-container", Shape: "pathological", Text: hdr("a") + " container x { } deviation /x { deviate add { default \"y\"; } } }"},
		{Name: "deviate-units-on-container", Shape: "pathological", Text: hdr("a") + " container x { } deviation /x { deviate replace { units \"y\"; } } }"},
		{Name: "deviate-mandatory-on-list", Shape: "pathological", Text: hdr("a") + " list x { key k; leaf k { type string; } } deviation /x { deviate add { mandatory true; } } }"},
		{Name: "deviate-must-on-choice", Shape: "pathological", Text: hdr("a") + " choice x { leaf k { type string; } } deviation /x { deviate add { must \"k\"; } } }"},
		{Name: "deviate-type-on-container", Shape: "pathological", Text: hdr("a") + " container x { } deviation /x { deviate replace { type string; } } }"},
		{Name: "deviate-config-on-rpc", Shape: "pathological", Text: hdr("a") + " rpc x { } deviation /x { deviate add { config false; } } }"},
		{Name: "grouping-uses-itself-directly", Shape: "cycle", Text: hdr("a") + " grouping g { uses g; } uses g; }"},
		{Name: "grouping-uses-itself-unused", Shape: "cycle", Text: hdr("a") + " grouping g { uses g; } leaf x { type string; } }"},
		{Name: "grouping-mutual-direct", Shape: "cycle", Text: hdr("a") + " grouping g { uses h; } grouping h { uses g; } uses g; }"},
		{Name: "submodule-includes-itself", Shape: "cycle", Main: "a", Mods: map[string]string{"a": hdr("a") + " include s; leaf x { type string; } }",
			"s": "submodule s { belongs-to a { prefix a; } include s; leaf y { type string; } }"}},
		{Name: "submodules-include-each-other", Shape: "cycle", Main: "a", Mods: map[string]string{"a": hdr("a") + " include s; leaf x { type string; } }",
			"s": "submodule s { belongs-to a { prefix a; } include t; leaf y { type string; } }",
			"t": "submodule t { belongs-to a { prefix a; } include s; leaf z { type string; } }"}},
		{Name: "augment-into-leaf", Shape: "pathological", Text: hdr("a") + " leaf x { type string; } augment \"/x\" { leaf y { type string; } } }"},
		{Name: "augment-uses-target", Shape: "pathological", Text: hdr("a") + " container c { } augment \"/c\" { uses nope; } }"},
		{Name: "refine-into-leaf-child", Shape: "pathological", Text: hdr("a") + " grouping g { leaf l { type string; } } uses g { refine \"l/x\" { default \"x\"; } } }"},
		{Name: "uses-augment-into-leaf", Shape: "pathological", Text: hdr("a") + " grouping g { leaf l { type string; } } uses g { augment \"l\" { leaf y { type string; } } } }"},
		{Name: "key-is-container", Shape: "pathological", Text: hdr("a") + " list l { key \"c\"; container c { } } }"},
		{Name: "key-is-leaf-list", Shape: "pathological", Text: hdr("a") + " list l { key \"c\"; leaf-list c { type string; } } }"},
		{Name: "unique-names-container", Shape: "pathological", Text: hdr("a") + " list l { key k; unique \"c\"; leaf k { type string; } container c { } } }"},
		{Name: "identityref-unknown-prefix", Shape: "pathological", Text: hdr("a") + " leaf x { type identityref { base zz:i; } } }"},
		{Name: "type-unknown-prefix", Shape: "pathological", Text: hdr("a") + " leaf x { type zz:t; } }"},
		{Name: "uses-unknown-prefix", Shape: "pathological", Text: hdr("a") + " uses zz:g; }"},
		{Name: "range-with-modifier", Shape: "pathological", Text: hdr("a") + " leaf l { type int32 { range \"1..2\" { modifier invert-match; } } } }"},
		{Name: "length-with-modifier", Shape: "pathological", Text: hdr("a") + " leaf l { type string { length \"1..2\" { modifier invert-match; } } } }"},
		{Name: "augment-action-into-leaf", Shape: "pathological", Text: hdr("a") + " leaf l { type string; } augment \"/l\" { action act { } } }"},
		{Name: "augment-action-into-choice", Shape: "pathological", Text: hdr("a") + " choice c { leaf l { type string; } } augment \"/c\" { action act { } } }"},
		{Name: "augment-notification-into-leaf", Shape: "pathological", Text: hdr("a") + " leaf l { type string; } augment \"/l\" { notification n { } } }"},
		{Name: "deviate-not-supported-on-case", Shape: "pathological", Text: hdr("a") + " choice c { case k { leaf l { type string; } } } deviation \"/c/k\" { deviate not-supported; } }"},
		{Name: "deviate-default-on-anyxml", Shape: "pathological", Text: hdr("a") + " anyxml ax; deviation \"/ax\" { deviate add { default \"x\"; } } }"},
		{Name: "deviate-units-on-anyxml", Shape: "pathological", Text: hdr("a") + " anyxml ax; deviation \"/ax\" { deviate add { units \"x\"; } } }"},
		{Name: "deviate-delete-default-on-anyxml", Shape: "pathological", Text: hdr("a") + " anyxml ax; deviation \"/ax\" { deviate delete { default \"x\"; } } }"},
		{Name: "deviate-replace-default-on-anydata", Shape: "pathological", Text: hdr("a") + " anydata ad; deviation \"/ad\" { deviate replace { default \"x\"; } } }"},
		{Name: "deviate-add-two-defaults-on-leaf", Shape: "pathological", Text: hdr("a") + " leaf l { type string; } deviation \"/l\" { deviate add { default \"a\"; default \"b\"; } } }"},
		{Name: "config-in-notification", Shape: "pathological", Text: hdr("a") + " notification n { leaf l { config true; type string; } } }"},
		{Name: "config-in-rpc-input", Shape: "pathological", Text: hdr("a") + " rpc r { input { leaf l { config true; type string; } } } }"},
		{Name: "config-in-rpc-output", Shape: "pathological", Text: hdr("a") + " rpc r { output { container c { config false; leaf l { type string; } } } } }"},
		{Name: "config-in-action-input", Shape: "pathological", Text: hdr("a") + " container c { action r { input { leaf l { config true; type string; } } } } }"},
		{Name: "submodule-includes-itself-bare", Shape: "cycle", Text: hdr("a") + " include s; }", Mods: map[string]string{"s": "submodule s { belongs-to a { prefix a; } include s; }"}},
		{Name: "anyxml-default", Shape: "pathological", Text: hdr("a") + " anyxml ax { default \"x\"; } }"},
		{Name: "anydata-units", Shape: "pathological", Text: hdr("a") + " anydata ad { units \"x\"; } }"},
		{Name: "refine-default-on-anydata", Shape: "pathological", Text: hdr("a") + " grouping g { anydata ad; } uses g { refine ad { default \"x\"; } } }"},
		{Name: "two-defaults-first-empty", Shape: "pathological", Text: hdr("a") + " leaf l { type string; default \"\"; default \"b\"; } }"},
		{Name: "two-defaults-typedef-first-empty", Shape: "pathological", Text: hdr("a") + " typedef t { type string; default \"\"; default \"b\"; } leaf l { type t; } }"},
		{Name: "two-defaults-choice", Shape: "pathological", Text: hdr("a") + " choice c { default \"x\"; default \"y\"; leaf x { type string; } leaf y { type string; } } }"},
		{Name: "include-gets-module-text", Shape: "opener-fault", Text: hdr("a") + " include s; }", Mods: map[string]string{"s": hdr("s") + " leaf y { type string; } }"}},
		{Name: "include-gets-empty-text", Shape: "opener-fault", Text: hdr("a") + " include s; }", Mods: map[string]string{"s": ""}},
		{Name: "include-gets-truncated-header", Shape: "opener-fault", Text: hdr("a") + " include s; }", Mods: map[string]string{"s": "submodule s"}},
		{Name: "nested-include-gets-module-text", Shape: "opener-fault", Text: hdr("a") + " include s; }", Mods: map[string]string{"s": "submodule s { belongs-to a { prefix a; } include t; }", "t": hdr("t") + " }"}},
		{Name: "grouping-cycle-of-three", Shape: "cycle", Text: hdr("a") + " grouping g { uses h; } grouping h { uses i; } grouping i { uses g; } container c { uses g; } }"},
		{Name: "grouping-cycle-in-rpc-input", Shape: "cycle", Text: hdr("a") + " grouping g { uses h; } grouping h { uses g; } rpc r { input { uses g; } } }"},
		{Name: "choice-in-choice-direct", Shape: "pathological", Text: hdr("a") + " choice c { choice d { leaf x { type string; } } } }"},
	}
}

func planC14(tier string, seed int64) (*core.Plan, error) {
	r := rng(seed)
	corpus := loadCorpus()
	var names []string
	for n := range corpus {
		names = append(names, n)
	}
	sort.Strings(names)
	p := &core.Plan{Property: "C14", Tier: tier, Seed: seed, Level: "exploration", Isolated: true, CaseTimeout: 15 * time.Second,
		Models: []core.ModelRun{{TLC: core.TLCRun{Module: "RobustModel", Workers: 4},
			Description: "the robustness contract as a state machine (request of every shape, admitted outcomes, reread): no reachable crash state, verdict operator consistent with the machine"}},
		EvalMod:     "EvalRobust",
		Histogram:   func(r core.Rec) string { return fmt.Sprint(r["kind"], "/", r["shape"], "/", r["out"]) },
		Rule:        fmt.Sprintf("corpus of %d valid modules (the repository's parser/testdata and the verification fixtures) tokenised; every prefix at a token boundary, every single-token deletion, duplication and substitution from a pool of %d tokens (thorough: all positions; quick: seeded sample), plus %d special inputs (unterminated strings/comments, nesting depth 100-1000, 30-200 '+' parts, import / include / typedef / grouping / identity / leafref cycles, every opener fault, dangling references, garbage ranges and patterns); each in a worker process with a timeout; when a module is returned every public accessor is walked; non-trivial: the input differs from a corpus module", len(names), len(substPool), len(specials())),
		NonTrivial:  func(r core.Rec) bool { return true },
		Assumptions: []string{"the oracle is totality only: a module or an error, never a crash or a hang; reference cycles must be errors", "fatal crashes and timeouts are attributed by the supervising process"},
	}
	p.Cases = func(emit func(core.Case)) {
		for _, s := range specials() {
			c := core.Case{"kind": "load", "name": s.Name, "shape": s.Shape, "text": s.Text, "fault": s.Fault, "main": s.Main}
			if s.Mods != nil {
				c["mods"] = s.Mods
			}
			emit(c)
		}
		budget := 6000
		if tier == "thorough" {
			budget = 1 << 30
		}
		type mut struct {
			name, shape, text, fault string
		}
		var all []mut
		for _, n := range names {
			toks := dschema.Tokens(corpus[n])
			all = append(all, mut{n, "valid", corpus[n], ""})
			if strings.Contains(corpus[n], "import ") || strings.Contains(corpus[n], "include ") {
				for _, f := range []string{"nil-opener", "missing", "error", "read-error", "self", "empty"} {
					all = append(all, mut{n, "opener-fault", corpus[n], f})
				}
			}
			// every byte prefix (cuts inside tokens, strings, comments and UTF-8 sequences)
			step := 1
			if tier != "thorough" {
				step = 7
			}
			for i := r.Intn(step); i < len(corpus[n]); i += step {
				all = append(all, mut{n, "truncate", corpus[n][:i], ""})
			}
			for i := range toks {
				all = append(all, mut{n, "truncate", strings.Join(toks[:i], ""), ""})
				all = append(all, mut{n, "delete", strings.Join(toks[:i], "") + strings.Join(toks[i+1:], ""), ""})
				all = append(all, mut{n, "dup", strings.Join(toks[:i+1], "") + strings.Join(toks[i:], ""), ""})
				sub := substPool[r.Intn(len(substPool))]
				if tier == "thorough" {
					for _, sp := range substPool {
						all = append(all, mut{n, "subst", strings.Join(toks[:i], "") + sp + strings.Join(toks[i+1:], ""), ""})
					}
				} else {
					all = append(all, mut{n, "subst", strings.Join(toks[:i], "") + sub + strings.Join(toks[i+1:], ""), ""})
				}
			}
		}
		if len(all) > budget {
			rand.New(rand.NewSource(seed)).Shuffle(len(all), func(i, j int) { all[i], all[j] = all[j], all[i] })
			all = all[:budget]
		}
		for _, m := range all {
			mods := map[string]string{}
			// imports / includes of the corpus module resolve against its directory
			if strings.HasPrefix(m.name, "repo:") {
				dir := filepath.Dir(core.RepoDir+"/parser/testdata/" + strings.TrimPrefix(m.name, "repo:"))
				if ents, err := os.ReadDir(dir); err == nil {
					for _, e := range ents {
						if strings.HasSuffix(e.Name(), ".yang") {
							if b, err := os.ReadFile(filepath.Join(dir, e.Name())); err == nil {
								mods[strings.TrimSuffix(e.Name(), ".yang")] = string(b)
							}
						}
					}
				}
			} else {
				for k, v := range fx.Extra {
					mods[k] = v
				}
			}
			emit(core.Case{"kind": "load", "name": m.name, "shape": m.shape, "text": m.text, "mods": mods, "fault": m.fault})
		}
	}
	return p, nil
}
