package plans

import (
	"math/rand"
	"strings"

	"verif/internal/abs"
	"verif/internal/core"
	_ "verif/internal/dcond"
	"verif/internal/fx"
	"verif/internal/gen"
)

func init() {
	Registry["C16"] = planC16
	// operands at and around the literals of the when expressions of S5; every value is a
	// point of the specification's value lines (spec/Values.tla)
	for k, v := range map[string][]string{
		"cw/mode": {"a", "b", "aa", "A"}, "cw/a": {"a", "z"}, "cw/deep/dd": {"a"},
		"lw/sel": {"4", "5", "6", "-1", "100"}, "lw/u8": {"0", "127", "128", "255"},
		"lw/u64": {"0", "9223372036854775807", "9223372036854775808", "18446744073709551615"},
		"lw/i64": {"-9223372036854775808", "-1", "0", "9223372036854775807"}, "lw/i8": {"-128", "126", "127"},
		"lw/name": {"a", "b", "B", "aa", "z"}, "lw/inner/lim": {"9", "10", "11"},
		"lst/v": {"2", "3", "4", "6", "-5"}, "lst/t": {"a", "b", "B"}, "lst/big": {"1", "9223372036854775808", "18446744073709551615"},
		"lst/pc/pv": {"0", "1", "2"}, "uw/on": {"a", "b"}, "uw/gl": {"a"}, "uw/gc/gcl": {"a"}, "lw/inner/augl": {"a", "z"}, "evt/level": {"2", "3", "4", "-3"}, "evt/who": {"a", "b", "z", "a+b", "a b", "50%"}, "evt/ratio": {"0.5", "1", "1.5", "2"},
		"lw/dc": {"0.5", "1", "1.5", "2"}, "lst/sub/v": {"2", "3", "4", "6"}, "lst/d": {"0.5", "1", "1.5", "2"},
		"evt/cnt": {"0", "9007199254740992", "9007199254740993", "18446744073709551615"},
	} {
		gen.Hints[k] = v
	}
}

var whereConds = []abs.Cond{
	{On: true, Path: []string{"v"}, Op: ">", Lit: "3"}, {On: true, Path: []string{"v"}, Op: "<=", Lit: "3"},
	{On: true, Path: []string{"v"}, Op: "!=", Lit: "3"}, {On: true, Path: []string{"v"}, Op: "=", Lit: "6"},
	{On: true, Path: []string{"v"}, Op: "<", Lit: "4"}, {On: true, Path: []string{"v"}, Op: ">=", Lit: "4"},
	{On: true, Path: []string{"t"}, Op: "=", Lit: "a"}, {On: true, Path: []string{"t"}, Op: "!=", Lit: "b"},
	{On: true, Path: []string{"t"}, Op: "<", Lit: "b"}, {On: true, Path: []string{"t"}, Op: ">=", Lit: "a"},
	{On: true, Path: []string{"big"}, Op: ">=", Lit: "9223372036854775808"}, {On: true, Path: []string{"big"}, Op: "<", Lit: "18446744073709551615"},
	{On: true, Path: []string{"pc", "pv"}, Op: ">", Lit: "1"}, {On: true, Path: []string{"pc", "pv"}, Op: "<=", Lit: "1"},
	{On: true, Path: []string{"d"}, Op: ">", Lit: "1"}, {On: true, Path: []string{"d"}, Op: "=", Lit: "1.5"},
	{On: true, Path: []string{"d"}, Op: "<=", Lit: "1"}, {On: true, Path: []string{"d"}, Op: "!=", Lit: "1"}, {On: true, Path: []string{"d"}, Op: "<", Lit: "1.5"},
}

var filterConds = []abs.Cond{
	{On: true, Path: []string{"level"}, Op: ">", Lit: "3"}, {On: true, Path: []string{"level"}, Op: "<=", Lit: "3"},
	{On: true, Path: []string{"level"}, Op: "!=", Lit: "2"}, {On: true, Path: []string{"who"}, Op: "=", Lit: "b"},
	{On: true, Path: []string{"who"}, Op: ">", Lit: "a"}, {On: true, Path: []string{"cnt"}, Op: ">", Lit: "9007199254740992"},
	{On: true, Path: []string{"cnt"}, Op: "<=", Lit: "9007199254740992"},
	{On: true, Path: []string{"who"}, Op: "=", Lit: "a+b"}, {On: true, Path: []string{"who"}, Op: "!=", Lit: "a+b"}, {On: true, Path: []string{"who"}, Op: "=", Lit: "50%"},
	{On: true, Path: []string{"who"}, Op: "=", Lit: "a b"}, {On: true, Path: []string{"ratio"}, Op: ">", Lit: "1"}, {On: true, Path: []string{"ratio"}, Op: "=", Lit: "1.5"},
}

func planC16(tier string, seed int64) (*core.Plan, error) {
	r := rng(seed)
	n := 120
	if tier == "thorough" {
		n = 2500
	}
	f, err := fx.Load("S5")
	if err != nil {
		return nil, err
	}
	if err := f.CheckDS(); err != nil {
		return nil, err
	}
	stores := []string{"rmap", "nmap", "rslice", "nslice"}
	var guarded []abs.SNode
	for _, sn := range f.DS {
		if sn.WhenP.On && sn.Kind == "leaf" {
			guarded = append(guarded, sn)
		}
	}
	p := &core.Plan{Property: "C16", Tier: tier, Seed: seed, Level: "model_checking",
		Models: []core.ModelRun{valuesModel},
		Rule:   "fixture S5 (when on a container, on leaves with operands of every integer width incl. uint64 / int64 extremes, boolean, enumeration, string with default, in a nested container, in list entries): seeded random trees with operand values at and around each literal and unset; full export (visible nodes only), single guarded leaf written by an edit (stored iff visible), ?where= with 14 conditions (all six operators, numeric, string, uint64, nested path, key) on lists, ?filter= with 7 conditions on scripted event streams; non-trivial: at least one guard is false or one entry/event is excluded",
		NonTrivial: func(r core.Rec) bool { return r["chk"] != "skip" },
		Assumptions: []string{"when expressions are taken apart by the harness (path, operator, literal) into the committed schema constant spec/S5.json", "context node of a leaf's when: its parent (as the repository's tests fix it)", "a schema default counts as the operand's value"},
	}
	p.Stages = append(p.Stages, core.Stage{Name: "S5", EvalMod: "EvalCond", EvalEnv: map[string]string{"SCHEMA": f.DSFile},
		Cases: func(emit func(core.Case)) {
			gp := gen.Default
			gp.PLeaf, gp.PCont, gp.PList, gp.MaxEntries = 0.75, 0.85, 0.9, 4
			g := &gen.G{DS: f.DS, R: r, P: gp}
			for i := 0; i < n; i++ {
				t := g.Subtree(abs.Path{})
				// the generator must not produce event data in the store tree
				t = withoutTop(t, "evt")
				store := stores[i%len(stores)]
				emit(core.Case{"kind": "whenread", "fixture": "S5", "store": store, "tree": t})
				// write one guarded leaf whose parent exists
				for k := 0; k < 3; k++ {
					sn := guarded[(3*i+k)%len(guarded)] // every guarded leaf in turn
					for _, parent := range parentsOf(t, sn.SP) {
						leaf := parent.Child(abs.S(sn.SP[len(sn.SP)-1]))
						emit(core.Case{"kind": "whenedit", "fixture": "S5", "store": store, "tree": t, "leaf": leaf, "v": []string{"a", "z"}[r.Intn(2)]})
						break
					}
				}
				lp := abs.Path{abs.S("lst")}
				if t.HasCont(lp) {
					emit(core.Case{"kind": "where", "fixture": "S5", "store": store, "tree": t, "list": lp, "cond": whereConds[i%len(whereConds)]}) // every condition in turn, on every kind of store
				}
				if i%2 == 0 {
					var events []*abs.Tree
					for e := 0; e < 2+r.Intn(4); e++ {
						ev := g.Subtree(abs.Path{abs.S("evt")})
						events = append(events, ev)
					}
					emit(core.Case{"kind": "filter", "fixture": "S5", "events": events, "cond": filterConds[(i/2)%len(filterConds)]})
				}
			}
		}})
	return p, nil
}

func withoutTop(t *abs.Tree, name string) *abs.Tree {
	out := abs.NewTree()
	for _, l := range t.Leaf {
		if l.P[0].N != name {
			out.Leaf = append(out.Leaf, l)
		}
	}
	for _, c := range t.Cont {
		if c[0].N != name {
			out.Cont = append(out.Cont, c)
		}
	}
	for _, o := range t.Ord {
		if o.P[0].N != name {
			out.Ord = append(out.Ord, o)
		}
	}
	return out.Canon()
}

// parentsOf: the existing data paths of the parent of schema node sp (root: one empty path)
func parentsOf(t *abs.Tree, sp []string) []abs.Path {
	if len(sp) == 1 {
		return []abs.Path{{}}
	}
	want := strings.Join(sp[:len(sp)-1], "/")
	var out []abs.Path
	for _, c := range t.Cont {
		if strings.Join(c.SPath(), "/") == want {
			// a list node itself is not a parent of leaves; its entries are
			out = append(out, c)
		}
	}
	var res []abs.Path
	for _, c := range out {
		isList := false
		for _, o := range t.Ord {
			if o.P.Key() == c.Key() {
				isList = true
			}
		}
		if !isList {
			res = append(res, c)
		}
	}
	return res
}

var _ = rand.Int
