// Package plans assembles, per property and tier, what is model checked, what
// is driven against the implementation and how the records are evaluated.
package plans

import (
	"encoding/json"
	"math/rand"

	"verif/internal/core"
)

type Maker func(tier string, seed int64) (*core.Plan, error)

var Registry = map[string]Maker{}

func rng(seed int64) *rand.Rand { return rand.New(rand.NewSource(seed)) }

func canonJSON(v any) string {
	b, _ := json.Marshal(v)
	return string(b)
}
