package plans

import (
	"os"
	"path/filepath"
	"strings"
	"time"

	"verif/internal/core"
	"verif/internal/dschema"
)

func init() {
	Registry["C06"] = planC06
}

var wsVariants = []string{"plain", "comment-before", "comment-after", "newlines", "line-comment", "tabs"}

func planC06(tier string, seed int64) (*core.Plan, error) {
	r := rng(seed)
	triples, err := dschema.SpecTriples()
	if err != nil {
		return nil, err
	}
	p := &core.Plan{Property: "C06", Tier: tier, Seed: seed, Level: "model_checking", Isolated: true, CaseTimeout: 30 * time.Second,
		Models: []core.ModelRun{{
			TLC:         core.TLCRun{Module: "YangLexModel", Workers: 16},
			Description: "every argument of up to 3 characters over an alphabet of 17 characters (both quotes, backslash, line feed, tab, space, ; { } / * + and letters, digit, non-ASCII) in every legal style (unquoted, single, double with the four escapes, '+' concatenations in three quote mixes): Unquote(Render(style, arg)) = arg",
		}},
		Rule:        "the spec's (argument, style, written text) triples (arguments of <= 2 characters over the 17-character alphabet plus 8 longer ones, 6 styles; 1591 legal triples, thorough: all, quick: seeded 12%) written at every free-text statement position (23 slots: module / revision / container / leaf / must / when / typedef / feature / identity / grouping / rpc / notification / enum descriptions and texts, units, default, presence, error-message, error-app-tag, extension argument) x white space / comment placement (6 variants); every closed-value statement (namespace, prefix, yang-version, revision date, config, mandatory, status, min/max-elements, ordered-by, unique, key, enum value) in every quoting; sibling order for permutations of 6 mixed siblings; repeated loads of the repository's own test modules in-process and in a second process; non-trivial: the argument contains a special character or is written quoted",
		NonTrivial:  func(r core.Rec) bool { return true },
		Assumptions: []string{"written texts come from the specification (YangLexExport) and are placed verbatim into module templates", "read-back through the public accessors named in the slot table (harness/internal/dschema/lex.go)"},
	}
	p.Stages = append(p.Stages, core.Stage{Name: "arguments", EvalMod: "EvalLex",
		Cases: func(emit func(core.Case)) {
			for si := range dschema.Slots {
				s := &dschema.Slots[si]
				if s.Text {
					for ti, t := range triples {
						if tier == "quick" && r.Intn(100) >= 12 {
							continue
						}
						ws := wsVariants[(ti+si)%len(wsVariants)]
						if tier == "thorough" {
							ws = wsVariants[r.Intn(len(wsVariants))]
						}
						emit(core.Case{"kind": "lex", "slot": s.Name, "arg": t.Arg, "style": t.Style, "text": t.Text, "ws": ws})
					}
					continue
				}
				for _, v := range s.Fixed {
					chars := strings.Split(v, "")
					for i, c := range chars {
						if c == " " {
							chars[i] = "sp"
						}
					}
					for _, st := range []string{"unq", "dq", "sq"} {
						text := chars
						switch st {
						case "unq":
							if strings.ContainsAny(v, " ;{}") {
								continue
							}
						case "dq":
							text = append(append([]string{"dq"}, chars...), "dq")
						case "sq":
							text = append(append([]string{"sq"}, chars...), "sq")
						}
						for _, ws := range []string{"plain", "comment-before", "newlines"} {
							emit(core.Case{"kind": "lex", "slot": s.Name, "arg": chars, "style": st, "text": text, "ws": ws})
						}
					}
				}
			}
			// sibling order: rotations and reversals of 6 mixed siblings
			base := []string{"alpha", "bravo", "charlie", "delta", "echo", "foxtrot"}
			kinds := []string{"leaf", "container", "list", "leaf-list", "choice", "anydata"}
			for rot := 0; rot < 6; rot++ {
				for _, rev := range []bool{false, true} {
					var names, ks []string
					for i := 0; i < 6; i++ {
						j := (i + rot) % 6
						if rev {
							j = (rot - i + 12) % 6
						}
						names = append(names, base[(j*5+rot)%6])
						ks = append(ks, kinds[j])
					}
					// names must be distinct
					seen := map[string]bool{}
					ok := true
					for _, n := range names {
						if seen[n] {
							ok = false
						}
						seen[n] = true
					}
					if ok {
						emit(core.Case{"kind": "order", "names": names, "kinds": ks})
						// one of the siblings taken away by a deviation: the others stay, in order
						emit(core.Case{"kind": "order", "names": names, "kinds": ks, "drop": names[(rot+2)%6]})
						if rot%2 == 0 {
							emit(core.Case{"kind": "order", "names": names, "kinds": ks, "drop": names[(rot+5)%6]})
						}
					}
				}
			}
			// statements of one kind keep the order they are written in: every permutation of three
			// (four for thorough) arguments
			perms := func(xs []string) [][]string {
				var out [][]string
				var rec func(cur, rest []string)
				rec = func(cur, rest []string) {
					if len(rest) == 0 {
						out = append(out, append([]string{}, cur...))
						return
					}
					for i := range rest {
						nr := append(append([]string{}, rest[:i]...), rest[i+1:]...)
						rec(append(cur, rest[i]), nr)
					}
				}
				rec(nil, xs)
				return out
			}
			dates := []string{"2019-03-01", "2021-11-30", "2024-01-01", "2020-02-29"}
			words := []string{"alpha", "bravo", "charlie", "delta"}
			n := 3
			if tier == "thorough" {
				n = 4
			}
			for _, pm := range perms(dates[:n]) {
				emit(core.Case{"kind": "order", "what": "revisions", "names": pm})
			}
			for _, what := range []string{"musts", "iffeatures", "enums", "bits", "keys", "unique", "lldefaults"} {
				for _, pm := range perms(words[:n]) {
					emit(core.Case{"kind": "order", "what": what, "names": pm})
				}
			}
			// determinism: the repository's own test modules
			root := core.RepoDir+"/parser/testdata"
			filepath.Walk(root, func(path string, info os.FileInfo, err error) error {
				if err == nil && !info.IsDir() && strings.HasSuffix(path, ".yang") {
					emit(core.Case{"kind": "determinism", "dir": filepath.Dir(path), "file": strings.TrimSuffix(filepath.Base(path), ".yang")})
				}
				return nil
			})
		}})
	return p, nil
}
