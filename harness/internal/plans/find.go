package plans

import (
	"math/rand"
	"sort"
	"strings"

	"verif/internal/abs"
	"verif/internal/core"
	_ "verif/internal/dfind"
	"verif/internal/fx"
	"verif/internal/gen"
)

func init() {
	Registry["C08"] = planC08
}

// SpecialKeys: key strings containing every character with a meaning in path syntax.
var SpecialKeys = []string{"a/b", "a,b", "a=b", "100%", "a b", " lead", "é", "x?y", "a#b", "a+b", "%2F", "k1", "a/b,c=d", "中", "a&b", "..", "a;b"}

func findStage(fname string, r *rand.Rand, n int, special bool) (core.Stage, error) {
	gp := gen.Default
	gp.PList, gp.PCont, gp.PLeaf = 0.8, 0.7, 0.6
	return findStageP(fname, r, n, special, gp)
}

func findStageP(fname string, r *rand.Rand, n int, special bool, gp gen.Params) (core.Stage, error) {
	f, err := fx.Load(fname)
	if err != nil {
		return core.Stage{}, err
	}
	if err := f.CheckDS(); err != nil {
		return core.Stage{}, err
	}
	stores, _ := storesFor(fname)
	name := fname
	if special {
		name += "-special-keys"
	}
	return core.Stage{Name: name, EvalMod: "EvalFind", EvalEnv: map[string]string{"SCHEMA": f.DSFile},
		Cases: func(emit func(core.Case)) {
			g := &gen.G{DS: f.DS, R: r, P: gp}
			if special {
				g.KeyStr = SpecialKeys
			}
			// every schema node is the target at least once, whatever the seed: trees are drawn
			// (densely populated) until each schema path has been seen in one, and the first tree
			// that holds a path is used for it - from the root, and from the node's grandparent
			if !special {
				dg := &gen.G{DS: f.DS, R: r, P: gen.Params{PLeaf: 0.9, PCont: 0.9, PList: 0.9, MaxEntries: 2, MaxDepth: 8}}
				covered := map[string]bool{}
				for try := 0; try < 400 && len(covered) < len(f.DS); try++ {
					t := dg.Subtree(abs.Path{})
					store := stores[try%len(stores)]
					var all []abs.Path
					all = append(all, gen.Nodes(t)...)
					for _, l := range t.Leaf {
						all = append(all, l.P)
					}
					for _, target := range all {
						k := strings.Join(target.SPath(), "/")
						if len(target) == 0 || covered[k] {
							continue
						}
						covered[k] = true
						c := core.Case{"kind": "find", "fixture": fname, "store": store, "tree": t, "from": abs.Path{}, "target": target, "variant": "plain", "unknown": ""}
						if target.IsEntry() || len(target) > 2 {
							c["nokey"] = len(covered)%2 == 0
						}
						emit(c)
						if len(target) > 2 {
							emit(core.Case{"kind": "find", "fixture": fname, "store": store, "tree": t, "from": target[:len(target)-2], "target": target, "variant": "qualified", "unknown": ""})
						}
					}
				}
			}
			for i := 0; i < n; i++ {
				t := g.Subtree(abs.Path{})
				store := stores[i%len(stores)]
				nodes := gen.Nodes(t)
				var targets []abs.Path
				targets = append(targets, nodes...)
				for _, l := range t.Leaf {
					targets = append(targets, l.P)
				}
				froms := []abs.Path{{}}
				for k := 0; k < 2 && len(nodes) > 1; k++ {
					froms = append(froms, nodes[1+r.Intn(len(nodes)-1)])
				}
				emitFind := func(from, target abs.Path, variant, unknown string) {
					// now and then through a node that answers a keyed request without repeating the key
					emit(core.Case{"kind": "find", "fixture": fname, "store": store, "tree": t, "from": from, "target": target, "variant": variant, "unknown": unknown,
						"nokey": unknown == "" && r.Intn(5) == 0})
				}
				r.Shuffle(len(targets), func(a, b int) { targets[a], targets[b] = targets[b], targets[a] })
				if len(targets) > 12 {
					targets = targets[:12]
				}
				for _, target := range targets {
					for _, from := range froms {
						emitFind(from, target, []string{"plain", "plain", "qualified", "trailing"}[r.Intn(4)], "")
					}
				}
				// absent nodes: an entry with an unused key, a container / list that is not there
				for _, target := range absentTargets(f, t, g) {
					emitFind(abs.Path{}, target, "plain", "")
				}
				// a name that is not in the schema, below an existing node
				emitFind(abs.Path{}, nodes[r.Intn(len(nodes))], "plain", "nosuchnode")
				// a name of the schema under the name of a module that does not define it
				if kids := f.DS.Children(nil); len(kids) > 0 {
					k := kids[r.Intn(len(kids))]
					emitFind(abs.Path{}, abs.Path{}, "plain", "nosuchmodule:"+k.SP[0])
				}
				if at := nodes[r.Intn(len(nodes))]; len(at) > 0 && (at.IsEntry() || f.DS.Node(at.SPath()).Kind == "container") {
					if kids := f.DS.Children(at.SPath()); len(kids) > 0 {
						k := kids[r.Intn(len(kids))]
						emitFind(abs.Path{}, at, "plain", "nosuchmodule:"+k.SP[len(k.SP)-1])
					}
				}
			}
		}}, nil
}

// absentTargets: schema-valid paths that hold no data in t.
func absentTargets(f *fx.Fixture, t *abs.Tree, g *gen.G) []abs.Path {
	var out, near []abs.Path
	for _, at := range gen.Nodes(t) {
		if len(at) > 0 && !at.IsEntry() && f.DS.Node(at.SPath()).Kind == "list" {
			n := f.DS.Node(at.SPath())
			key := make([]string, len(n.Keys))
			for i := range key {
				key[i] = "zz9"
				if kt := f.DS.Node(append(append([]string{}, n.SP...), n.Keys[i])).Type; kt != "string" {
					key[i] = "99"
					if kt == "binary" {
						key[i] = "AAAA"
					}
					if kt == "boolean" || kt == "enumeration" {
						key = nil
						break
					}
				}
			}
			if key != nil {
				out = append(out, at.Child(abs.E(at[len(at)-1].N, key...)))
			}
			// keys made of the components of the entries that are there (a tuple that shares its
			// first or last component with an existing entry), and neighbours from the vocabulary
			near = append(near, nearKeys(f, t, at, n)...)
			continue
		}
		if len(at) > 0 && !at.IsEntry() {
			continue
		}
		for _, ch := range f.DS.Children(at.SPath()) {
			if ch.Kind != "container" && ch.Kind != "list" {
				continue
			}
			p := at.Child(abs.S(ch.SP[len(ch.SP)-1]))
			if !t.HasCont(p) {
				out = append(out, p)
				// and something below the absent node
				for _, gc := range f.DS.Children(ch.SP) {
					if ch.Kind == "container" {
						out = append(out, p.Child(abs.S(gc.SP[len(gc.SP)-1])))
						break
					}
				}
			}
		}
	}
	if len(out) > 6 {
		g.R.Shuffle(len(out), func(a, b int) { out[a], out[b] = out[b], out[a] })
		out = out[:6]
	}
	if len(near) > 8 {
		g.R.Shuffle(len(near), func(a, b int) { near[a], near[b] = near[b], near[a] })
		near = near[:8]
	}
	return append(out, near...)
}

// nearKeys: key tuples that are not in the list but are built from the components of the
// entries that are, or from the other values of each component's vocabulary.
func nearKeys(f *fx.Fixture, t *abs.Tree, lp abs.Path, n *abs.SNode) []abs.Path {
	have := map[string]bool{}
	comps := make([]map[string]bool, len(n.Keys))
	for i := range comps {
		comps[i] = map[string]bool{}
		kn := f.DS.Node(append(append([]string{}, n.SP...), n.Keys[i]))
		if kn.Type == "enumeration" {
			for _, e := range kn.Enums {
				comps[i][e.L] = true
			}
		}
		for _, v := range gen.KeyVocab[kn.Type] {
			comps[i][v] = true
		}
	}
	for _, key := range t.OrdAt(lp) {
		have[strings.Join(key, "\x00")] = true
		for i, k := range key {
			if i < len(comps) {
				comps[i][k] = true
			}
		}
	}
	var lists [][]string
	for i := range comps {
		var vs []string
		for v := range comps[i] {
			vs = append(vs, v)
		}
		sort.Strings(vs)
		lists = append(lists, vs)
	}
	var out []abs.Path
	for _, key := range product(lists) {
		if !have[strings.Join(key, "\x00")] {
			out = append(out, lp.Child(abs.E(lp[len(lp)-1].N, key...)))
		}
	}
	return out
}

func planC08(tier string, seed int64) (*core.Plan, error) {
	r := rng(seed)
	n := 60
	if tier == "thorough" {
		n = 1500
	}
	p := &core.Plan{Property: "C08", Tier: tier, Seed: seed, Level: "model_checking",
		Models: []core.ModelRun{{
			TLC:         core.TLCRun{Module: "FcPathModel", Workers: 16, HeapGB: 8},
			Description: "path text as token sequences: Parse(Render(p)) = p, trailing slash, strict encoding, for every key value of length <= 2 over an alphabet containing every character with a meaning in the syntax, single and compound keys, paths of 1-2 steps",
		}},
		Rule:        "seeded random trees on S0, S1 (compound keys, nested lists, nested choices), S2 (keys of every type), P0; per tree: Find from the root and from 2 random nodes (leading ../) to up to 12 existing nodes (containers, lists, entries, leaves) in plain / module-qualified / trailing-slash form, to absent entries / containers / lists, and to a name not in the schema; a stage with key strings containing / , = % space + ? # & ; .. and non-ASCII; for each found selection its path is rendered and looked up again; non-trivial: the target is not the root",
		NonTrivial:  func(r core.Rec) bool { return r["chk"] == "find" },
		Assumptions: []string{"path texts are rendered by the harness with strict percent-encoding (everything outside ALPHA DIGIT - . _ ~)", "an unset leaf of an existing node: outcome not stated by the property (admitted either way)"},
	}
	for _, fname := range []string{"S0", "S1", "S2", "P0", "S7"} {
		st, err := findStage(fname, r, n/4, false)
		if err != nil {
			return nil, err
		}
		p.Stages = append(p.Stages, st)
	}
	// S7 once more, densely populated: the nodes in the innermost cases of its nested choices are there
	{
		st, err := findStageP("S7", r, n/4, false, gen.Params{PLeaf: 0.95, PCont: 0.95, PList: 0.95, MaxEntries: 3, MaxDepth: 8})
		if err != nil {
			return nil, err
		}
		st.Name = "S7-dense"
		p.Stages = append(p.Stages, st)
	}
	for _, fname := range []string{"S0", "S1"} {
		st, err := findStage(fname, r, n/4, true)
		if err != nil {
			return nil, err
		}
		p.Stages = append(p.Stages, st)
	}
	return p, nil
}
