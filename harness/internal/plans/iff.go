package plans

import (
	"verif/internal/core"
	_ "verif/internal/dschema"
)

func init() {
	Registry["C11"] = planC11
}

var iffWords = []string{"a", "b", "c", "and", "or", "not", "(", ")"}

func allTokenSeqs(maxLen int, emit func([]string)) {
	var rec func(cur []string)
	rec = func(cur []string) {
		if len(cur) > 0 {
			emit(append([]string{}, cur...))
		}
		if len(cur) == maxLen {
			return
		}
		for _, w := range iffWords {
			rec(append(cur, w))
		}
	}
	rec(nil)
}

func subsets() [][]string {
	f := []string{"a", "b", "c"}
	var out [][]string
	for m := 0; m < 8; m++ {
		s := []string{}
		for i := 0; i < 3; i++ {
			if m&(1<<i) != 0 {
				s = append(s, f[i])
			}
		}
		out = append(out, s)
	}
	return out
}

func planC11(tier string, seed int64) (*core.Plan, error) {
	r := rng(seed)
	p := &core.Plan{Property: "C11", Tier: tier, Seed: seed, Level: "model_checking",
		Models: []core.ModelRun{{
			TLC:         core.TLCRun{Module: "IfFeatureModel", Workers: 16},
			Description: "every token sequence of length <= 5 over {a,b,c,and,or,not,(,)} (37449 states): parenthesising and double negation preserve well-formedness and value under all 8 assignments, shape lemmas of well-formed expressions, RFC precedence examples",
		}},
		Rule: "EVERY token sequence of length <= 4 (thorough: <= 5) over {a,b,c,and,or,not,(,)} placed on a leaf, each under all 2^3 feature assignments given as allow-list or deny-list (quick: seeded 25% of the assignment x configuration pairs for length-4 sequences); all well-formed sequences <= 5 additionally on container / list / leaf-list / case / choice / uses / augment; deviations: every kind x property x precondition; non-trivial: well-formed expressions and malformed ones that are not rejected",
		NonTrivial: func(r core.Rec) bool { return true },
		Assumptions: []string{"expressions are rendered with single spaces and no space inside parentheses", "presence is observed as the existence of a probe node in the compiled tree"},
	}
	maxLen := 4
	if tier == "thorough" {
		maxLen = 5
	}
	p.Stages = append(p.Stages, core.Stage{Name: "if-feature", EvalMod: "EvalIfFeature",
		Cases: func(emit func(core.Case)) {
			subs := subsets()
			allTokenSeqs(maxLen, func(toks []string) {
				for si, on := range subs {
					for ci, cfg := range []string{"allow", "deny"} {
						if len(toks) >= 4 && tier == "quick" && r.Intn(100) >= 25 {
							continue
						}
						if len(toks) == 5 && r.Intn(100) >= 20 {
							continue
						}
						_ = si
						_ = ci
						emit(core.Case{"kind": "iff", "toks": toks, "on": on, "stmt": "leaf", "cfg": cfg})
					}
				}
			})
			// other guardable statements: the well-formed expressions only (few)
			for _, stmt := range []string{"container", "list", "leaf-list", "case", "choice", "uses", "augment", "refine", "anydata", "leaf-importing"} {
				allTokenSeqs(5, func(toks []string) {
					if !wellFormedIff(toks) {
						// a sample of the malformed ones: an error wherever the statement is written
						if len(toks) > 3 || r.Intn(100) >= 10 {
							return
						}
					} else if tier == "quick" && r.Intn(100) >= 12 {
						return
					}
					on := subs[r.Intn(len(subs))]
					emit(core.Case{"kind": "iff", "toks": toks, "on": on, "stmt": stmt, "cfg": []string{"allow", "deny"}[r.Intn(2)], "ownprefix": r.Intn(4) == 0})
				})
			}
			emit(core.Case{"kind": "iff", "toks": []string{"a"}, "on": []string{"a", "b", "c"}, "stmt": "leaf", "cfg": "all"})
			emit(core.Case{"kind": "iff", "toks": []string{"not", "a"}, "on": []string{"a", "b", "c"}, "stmt": "leaf", "cfg": "all"})
		}})
	deviationStage(p, tier, r)
	return p, nil
}

// wellFormedIff is only used to SELECT which sequences are tried on the rarer statement
// kinds (a generator filter); the verdict on every record is TLC's.
func wellFormedIff(t []string) bool {
	var expr, term, factor func(i int) (bool, int)
	isFeat := func(s string) bool { return s == "a" || s == "b" || s == "c" }
	factor = func(i int) (bool, int) {
		if i >= len(t) {
			return false, 0
		}
		switch {
		case t[i] == "not":
			return factor(i + 1)
		case t[i] == "(":
			ok, n := expr(i + 1)
			if ok && n < len(t) && t[n] == ")" {
				return true, n + 1
			}
			return false, 0
		case isFeat(t[i]):
			return true, i + 1
		}
		return false, 0
	}
	term = func(i int) (bool, int) {
		ok, n := factor(i)
		if !ok {
			return false, 0
		}
		if n < len(t) && t[n] == "and" {
			return term(n + 1)
		}
		return true, n
	}
	expr = func(i int) (bool, int) {
		ok, n := term(i)
		if !ok {
			return false, 0
		}
		if n < len(t) && t[n] == "or" {
			return expr(n + 1)
		}
		return true, n
	}
	ok, n := expr(0)
	return ok && n == len(t)
}
