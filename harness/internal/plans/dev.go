package plans

import (
	"math/rand"
	"sort"

	"verif/internal/core"
	"verif/internal/dschema"
)

// deviationStage: every deviate kind x property x (target states it or not) x (delete:
// same value or another); exhaustive, it is small.
func deviationStage(p *core.Plan, tier string, r *rand.Rand) {
	p.Stages = append(p.Stages, core.Stage{Name: "deviation", EvalMod: "EvalIfFeature",
		Cases: func(emit func(core.Case)) {
			var props []string
			for k := range dschema.DevProps {
				props = append(props, k)
			}
			sort.Strings(props)
			for _, prop := range props {
				for _, kind := range []string{"add", "replace", "delete", "not-supported"} {
					for _, had := range []bool{false, true} {
						for _, same := range []bool{false, true} {
							if kind != "delete" && same {
								continue
							}
							if kind == "delete" && (prop == "config" || prop == "mandatory" || prop == "min-elements" || prop == "max-elements") {
								continue // RFC 7950: deviate delete names units, must, unique, default only
							}
							emit(core.Case{"kind": "dev", "dkind": kind, "prop": prop, "had": had, "same": same})
						}
					}
				}
			}
			// several must / unique values handled by one deviate block: every sub-sequence the target
			// states x every non-empty set the block names
			pools := map[string][]string{"must": {"../sib = 'a'", "../sib != 'b'", "../sib = 'c'", "../sib = 'zz'"}, "unique": {"u1", "u2", "u3", "u4"}}
			for _, prop := range []string{"must", "unique"} {
				pool := pools[prop]
				for hm := 0; hm < 8; hm++ {
					var have []string
					for i := 0; i < 3; i++ {
						if hm&(1<<i) != 0 {
							have = append(have, pool[i])
						}
					}
					for vm := 1; vm < 16; vm++ {
						var vals []string
						for i := 0; i < 4; i++ {
							if vm&(1<<i) != 0 {
								vals = append(vals, pool[i])
							}
						}
						for _, kind := range []string{"add", "delete"} {
							emit(core.Case{"kind": "devm", "dkind": kind, "prop": prop, "have": have, "vals": vals})
						}
					}
				}
			}
		}})
}
