package plans

import (
	"math/rand"
	"sort"

	"verif/internal/core"
	"verif/internal/dschema"
)

// deviationStage: every deviate kind x property x (target states it or not) x (delete:
// same value or another); exhaustive, it is small.
func deviationStage(p *core.Plan, tier string, r *rand.Rand) {
	p.Stages = append(p.Stages, core.Stage{Name: "deviation", EvalMod: "EvalIfFeature",
		Cases: func(emit func(core.Case)) {
			var props []string
			for k := range dschema.DevProps {
				props = append(props, k)
			}
			sort.Strings(props)
			for _, prop := range props {
				for _, kind := range []string{"add", "replace", "delete", "not-supported"} {
					for _, had := range []bool{false, true} {
						for _, same := range []bool{false, true} {
							if kind != "delete" && same {
								continue
							}
							if kind == "delete" && (prop == "config" || prop == "mandatory" || prop == "min-elements" || prop == "max-elements") {
								continue // RFC 7950: deviate delete names units, must, unique, default only
							}
							emit(core.Case{"kind": "dev", "dkind": kind, "prop": prop, "had": had, "same": same})
						}
					}
				}
			}
		}})
}
