package plans

import (
	"fmt"
	"github.com/freeconf/yang/node"
	"github.com/freeconf/yang/nodeutil"
	"github.com/freeconf/yang/parser"
	"math/rand"
	"strings"

	"verif/internal/abs"
	"verif/internal/core"
	"verif/internal/dread"
	"verif/internal/fx"
	"verif/internal/gen"
)

func init() {
	Registry["C07"] = planC07
}

// relSchemaPaths: schema paths (name sequences) below `at`, up to maxLen names.
func relSchemaPaths(f *fx.Fixture, at abs.Path, maxLen int, kinds map[string]bool) [][]string {
	base := at.SPath()
	var out [][]string
	for _, n := range f.DS {
		if len(n.SP) <= len(base) || len(n.SP) > len(base)+maxLen {
			continue
		}
		if strings.Join(n.SP[:len(base)], "/") != strings.Join(base, "/") {
			continue
		}
		if kinds != nil && !kinds[n.Kind] {
			continue
		}
		out = append(out, append([]string{}, n.SP[len(base):]...))
	}
	return out
}

func longPaths(all [][]string) [][]string {
	var out [][]string
	for _, p := range all {
		if len(p) >= 3 {
			out = append(out, p)
		}
	}
	return out
}

func pick(r *rand.Rand, xs [][]string, n int) [][]string {
	if len(xs) == 0 {
		return [][]string{}
	}
	out := [][]string{}
	for i := 0; i < n; i++ {
		out = append(out, xs[r.Intn(len(xs))])
	}
	return out
}

// withValue returns vocab values that make trim meaningful (values equal to defaults).
func randomParams(f *fx.Fixture, r *rand.Rand, at abs.Path, ordered bool) dread.Params {
	var p dread.Params
	all := relSchemaPaths(f, at, 5, nil)
	// two selector paths that differ only in the last name (candidates for the group syntax)
	siblings := func() [][]string {
		a := all[r.Intn(len(all))]
		var sib [][]string
		for _, b := range all {
			if len(b) == len(a) && len(a) > 1 && strings.Join(b[:len(b)-1], "/") == strings.Join(a[:len(a)-1], "/") && b[len(b)-1] != a[len(a)-1] {
				sib = append(sib, b)
			}
		}
		if len(sib) == 0 {
			return pick(r, all, 2)
		}
		return [][]string{a, sib[r.Intn(len(sib))]}
	}
	lists := relSchemaPaths(f, at, 3, map[string]bool{"list": true})
	nparams := 1 + r.Intn(2)
	if r.Intn(6) == 0 {
		nparams = 3
	}
	for i := 0; i < nparams; i++ {
		switch r.Intn(7) {
		case 0:
			p.Content = []string{"config", "nonconfig", "all"}[r.Intn(3)]
		case 1:
			p.Depth = 1 + r.Intn(4)
		case 2:
			if len(all) > 0 && r.Intn(3) == 0 {
				p.Fields = siblings()
			} else if long := longPaths(all); len(long) > 1 && r.Intn(2) == 0 {
				// two alternatives of three or more names that start differently
				a := long[r.Intn(len(long))]
				b := a
				for k := 0; k < 10 && b[0] == a[0]; k++ {
					b = long[r.Intn(len(long))]
				}
				p.Fields = [][]string{a, b}
			} else {
				p.Fields = pick(r, all, 1+r.Intn(2))
			}
		case 3:
			p.XFields = pick(r, all, 1+r.Intn(2))
		case 4:
			p.Trim = true
		case 5:
			if ordered && len(lists) > 0 {
				p.Range = dread.Range{On: true, Sel: lists[r.Intn(len(lists))], Lo: r.Intn(4), Hi: r.Intn(6) - 1}
			}
		case 6:
			p.MaxNode = []int{1, 2, 3, 6, 50}[r.Intn(5)]
		}
	}
	// alternative syntax common/(rest0;rest1) for two field paths with a common beginning
	if len(p.Fields) == 2 && r.Intn(2) == 0 && len(p.XFields) == 0 {
		a, b := p.Fields[0], p.Fields[1]
		n := 0
		for n < len(a)-1 && n < len(b)-1 && a[n] == b[n] {
			n++
		}
		if n > 0 {
			q := p
			q.Raw = ""
			q.Fields = nil
			rest := q.Query()
			expr := strings.Join(a[:n], "/") + "/(" + strings.Join(a[n:], "/") + "%3B" + strings.Join(b[n:], "/") + ")"
			p.Raw = "fields=" + expr
			if rest != "" {
				p.Raw += "&" + rest
			}
		}
	}
	return p
}

var invalidQueries = []string{"depth=abc", "depth=-1", "depth=0", "content=bogus", "with-defaults=bogus", "fc.range=ifs", "fc.range=ifs!x-y",
	"fc.range=ifs!1-x", "fc.max-node-count=abc", "depth=1.5", "depth=", "content="}

// rangeEndReading asks the library once how it reads the end row of an fc.range window (the
// property and the documentation do not say): rows 0-1 of a three row list are one row
// (exclusive) or two (inclusive).  The answer is a constant of the whole run, so that a mismatch
// is judged the same way when its case is executed again.
func rangeEndReading() (string, error) {
	m, err := parser.LoadModuleFromString(nil, "module rp { namespace \"urn:rp\"; prefix rp; revision 2024-01-01; list l { key k; leaf k { type string; } } }")
	if err != nil {
		return "", err
	}
	data := map[string]interface{}{"l": []map[string]interface{}{{"k": "a"}, {"k": "b"}, {"k": "c"}}}
	b := node.NewBrowser(m, &nodeutil.Node{Object: data})
	sel, err := b.Root().Find("?fc.range=l!0-1")
	if err != nil || sel == nil {
		return "", fmt.Errorf("range probe: %v", err)
	}
	out, err := nodeutil.WriteJSON(sel)
	if err != nil {
		return "", err
	}
	switch strings.Count(out, "\"k\"") {
	case 1:
		return "false", nil
	case 2:
		return "true", nil
	}
	return "", fmt.Errorf("range probe: rows 0-1 of three rows read as %s", out)
}

func readStage(fname string, r *rand.Rand, n int) (core.Stage, error) {
	incl, err := rangeEndReading()
	if err != nil {
		return core.Stage{}, err
	}
	f, err := fx.Load(fname)
	if err != nil {
		return core.Stage{}, err
	}
	if err := f.CheckDS(); err != nil {
		return core.Stage{}, err
	}
	stores := []string{"rslice", "nslice", "rmap", "nmap"}
	if fname == "S0" || fname == "S1" {
		stores = append(stores, "nstruct")
	}
	return core.Stage{Name: fname, EvalMod: "EvalRead", EvalEnv: map[string]string{"SCHEMA": f.DSFile, "INCL": incl},
		Cases: func(emit func(core.Case)) {
			gp := gen.Default
			gp.PList, gp.PCont, gp.PLeaf, gp.MaxEntries = 0.85, 0.8, 0.7, 4
			g := &gen.G{DS: f.DS, R: r, P: gp}
			// values equal to the defaults must occur for with-defaults=trim
			old := gen.Vocab["string"]
			gen.Vocab["string"] = []string{"u", "v", "auto", "x", "dm", "dv", "da"}
			gen.Vocab["int32"] = []string{"1", "7", "-5", "1500", "3", "5"}
			defer func() { gen.Vocab["string"] = old; gen.Vocab["int32"] = []string{"1", "7", "-5"} }()
			// leaf-lists against their defaults under with-defaults=trim: the same values, the same
			// text split differently, another order, a subset
			if fname == "S7" {
				words := abs.Path{abs.S("a"), abs.S("words")}
				tags := abs.Path{abs.S("a"), abs.S("b"), abs.S("c"), abs.S("tags")}
				variants := []struct{ w, t []string }{
					{[]string{"u v"}, []string{"t1", "t2"}}, {[]string{"u", "v"}, []string{"t1 t2"}},
					{[]string{"u"}, []string{"t2", "t1"}}, {[]string{"u v", "u"}, []string{"t1"}},
				}
				for i, v := range variants {
					t := g.Subtree(abs.Path{})
					var leaf []abs.LeafItem
					for _, l := range t.Leaf {
						if k := l.P.Key(); k != words.Key() && k != tags.Key() {
							leaf = append(leaf, l)
						}
					}
					t.Leaf = leaf
					for _, c := range []abs.Path{words[:1], tags[:2], tags[:3]} {
						if !t.HasCont(c) {
							t.Cont = append(t.Cont, c)
						}
					}
					t.Leaf = append(t.Leaf, abs.LeafItem{P: words, V: v.w}, abs.LeafItem{P: tags, V: v.t})
					t.Canon()
					for k, store := range stores {
						at := []abs.Path{{}, words[:1], tags[:3]}[(i+k)%3]
						emit(core.Case{"kind": "read", "fixture": fname, "store": store, "tree": t, "at": at,
							"p": dread.Params{Trim: true}, "via": []string{"find", "constrain"}[(i+k)%2]})
					}
				}
			}
			// every schema node is read at least once under each parameter kind
			for i, t := range coverTrees(f, r) {
				ps := []dread.Params{{Depth: 1 + i%3}, {Content: "config"}, {Content: "nonconfig"}, {Trim: true}, {Depth: 4, Trim: true}}
				for k, p := range ps {
					emit(core.Case{"kind": "read", "fixture": fname, "store": stores[(i+k)%len(stores)], "tree": t, "at": abs.Path{},
						"p": p, "via": []string{"find", "constrain"}[(i+k)%2]})
				}
			}
			// the group syntax prefix/(x;y) after a prefix of every length the schema has, as fields
			// and as fc.xfields, on the covering trees
			{
				all := relSchemaPaths(f, abs.Path{}, 8, nil)
				byParent := map[string][][]string{}
				var order []string
				for _, sp := range all {
					if len(sp) < 2 {
						continue
					}
					k := strings.Join(sp[:len(sp)-1], "/")
					if _, ok := byParent[k]; !ok {
						order = append(order, k)
					}
					byParent[k] = append(byParent[k], sp)
				}
				trees := coverTrees(f, r)
				ti := 0
				for _, k := range order {
					kids := byParent[k]
					if len(kids) < 2 || len(trees) == 0 {
						continue
					}
					a, b := kids[0], kids[1]
					expr := k + "/(" + a[len(a)-1] + "%3B" + b[len(b)-1] + ")"
					for v, param := range []string{"fields", "fc.xfields"} {
						pp := dread.Params{Raw: param + "=" + expr}
						if v == 0 {
							pp.Fields = [][]string{a, b}
						} else {
							pp.XFields = [][]string{a, b}
						}
						ti++
						emit(core.Case{"kind": "read", "fixture": fname, "store": stores[ti%len(stores)], "tree": trees[ti%len(trees)], "at": abs.Path{},
							"p": pp, "via": []string{"find", "constrain"}[ti%2]})
					}
				}
			}
			for i := 0; i < n; i++ {
				t := g.Subtree(abs.Path{})
				store := stores[i%len(stores)]
				ordered := fx.Stores[store].Ordered
				nodes := gen.Nodes(t)
				for k := 0; k < 5; k++ {
					at := abs.Path{}
					if k > 1 {
						at = nodes[r.Intn(len(nodes))]
						// a list node as target (depth counted from the list) - not on every tree
						if len(at) > 0 && !at.IsEntry() && f.DS.Node(at.SPath()).Kind == "list" && r.Intn(2) == 0 {
							at = abs.Path{}
						}
					}
					p := randomParams(f, r, at, ordered)
					emit(core.Case{"kind": "read", "fixture": fname, "store": store, "tree": t, "at": at, "p": p, "via": []string{"find", "constrain"}[r.Intn(2)]})
				}
				if i%4 == 0 {
					q := invalidQueries[(i/4)%len(invalidQueries)] // each in turn
					emit(core.Case{"kind": "read", "fixture": fname, "store": store, "tree": t, "at": abs.Path{},
						"p": dread.Params{Invalid: true, Raw: q}, "via": []string{"find", "constrain"}[r.Intn(2)]})
				}
			}
		}}, nil
}

func planC07(tier string, seed int64) (*core.Plan, error) {
	r := rng(seed)
	n := 150
	if tier == "thorough" {
		n = 3000
	}
	mn := 2
	if tier == "thorough" {
		mn = 3
	}
	model, err := storeModelRun("FcReadModel", mn, 90)
	if err != nil {
		return nil, err
	}
	model.MustCover = nil
	model.Description = "FcReadModel: for every tree reachable in the store state machine and a finite alphabet of query parameters (depth 1-2, three field sets, two xfield sets, trim, four row windows, both end-row readings): projection within the full read, combination = intersection, ReadCheck admits the canonical result and rejects a result with one leaf more or less; " + model.Description
	p := &core.Plan{Property: "C07", Tier: tier, Seed: seed, Level: "model_checking",
		Models: []core.ModelRun{model},
		Rule:   "seeded random trees on S3 (config false nodes, defaults, nested lists), S0, S1; per tree 5 reads from the root or a random container/entry with 1-3 random parameters (content, depth 1-4, fields / fc.xfields over schema paths of 1-3 names incl. a/(b;c) syntax, with-defaults=trim, fc.range windows lo 0-3 / hi -1..4 incl. empty and out-of-range on slice-backed stores, fc.max-node-count) via Find(path?query) or Constrain(query), result captured by UpsertInto a fresh store; plus invalid parameter values; non-trivial: the projection differs from the full read or the read fails",
		NonTrivial: func(r core.Rec) bool {
			if r["chk"] != "read" {
				return false
			}
			return canonJSON(r["got"]) != canonJSON(r["tree"])
		},
		Assumptions: []string{"the result is captured with Selection.UpsertInto into a map-backed store and read back directly", "containers shown empty under content=config|nonconfig are not stated by the property (admitted)", "fc.range end row: inclusive or exclusive, one reading per evaluated trace"},
	}
	for _, fname := range []string{"S3", "S0", "S1", "S7"} {
		st, err := readStage(fname, r, n/3)
		if err != nil {
			return nil, err
		}
		p.Stages = append(p.Stages, st)
	}
	return p, nil
}
