package plans

import (
	"math/rand"
	"strings"

	"verif/internal/abs"
	"verif/internal/fx"
	"verif/internal/gen"
)

// coverTrees draws densely populated trees until every schema node of the fixture holds data in
// one of them (or the tries are used up) and returns the trees that added a schema node: a small
// set in which every container, list, leaf and leaf-list of the schema - the members of every
// case of every choice included - is present at least once, whatever the seed.
func coverTrees(f *fx.Fixture, r *rand.Rand) []*abs.Tree {
	g := &gen.G{DS: f.DS, R: r, P: gen.Params{PLeaf: 0.9, PCont: 0.9, PList: 0.9, MaxEntries: 2, MaxDepth: 8}}
	covered := map[string]bool{}
	var out []*abs.Tree
	for try := 0; try < 400 && len(covered) < len(f.DS); try++ {
		t := g.Subtree(abs.Path{})
		added := false
		mark := func(p abs.Path) {
			k := strings.Join(p.SPath(), "/")
			if len(p) > 0 && !covered[k] {
				covered[k] = true
				added = true
			}
		}
		for _, p := range t.Cont {
			mark(p)
		}
		for _, l := range t.Leaf {
			mark(l.P)
		}
		if added {
			out = append(out, t)
		}
	}
	return out
}

func coverTreesIf(on bool, f *fx.Fixture, r *rand.Rand) []*abs.Tree {
	if !on {
		return nil
	}
	return coverTrees(f, r)
}
