package plans

import (
	"math/rand"
	"strings"

	"verif/internal/abs"
	"verif/internal/fx"
	"verif/internal/gen"
)

// coverTrees draws densely populated trees until every schema node of the fixture holds data in
// one of them (or the tries are used up) and returns the trees that added a schema node: a small
// set in which every container, list, leaf and leaf-list of the schema - the members of every
// case of every choice included - is present at least once, whatever the seed.
func coverTrees(f *fx.Fixture, r *rand.Rand) []*abs.Tree {
	g := &gen.G{DS: f.DS, R: r, P: gen.Params{PLeaf: 0.9, PCont: 0.9, PList: 0.9, MaxEntries: 2, MaxDepth: 8}}
	covered := map[string]bool{}
	var out []*abs.Tree
	for try := 0; try < 400 && len(covered) < len(f.DS); try++ {
		t := g.Subtree(abs.Path{})
		added := false
		mark := func(p abs.Path) {
			k := strings.Join(p.SPath(), "/")
			if len(p) > 0 && !covered[k] {
				covered[k] = true
				added = true
			}
		}
		for _, p := range t.Cont {
			mark(p)
		}
		for _, l := range t.Leaf {
			mark(l.P)
		}
		if added {
			out = append(out, t)
		}
	}
	return out
}

func coverTreesIf(on bool, f *fx.Fixture, r *rand.Rand) []*abs.Tree {
	if !on {
		return nil
	}
	return coverTrees(f, r)
}

// bareRows keeps of every list entry of t only its key leaves: rows in which every container
// (and nested list) a path below the row could step through holds no data.
func bareRows(f *fx.Fixture, t *abs.Tree) *abs.Tree {
	firstEntry := func(p abs.Path) int {
		for i, s := range p {
			if len(s.K) > 0 {
				return i
			}
		}
		return -1
	}
	out := abs.NewTree()
	for _, c := range t.Cont {
		if e := firstEntry(c); e < 0 || len(c) == e+1 {
			out.Cont = append(out.Cont, c)
		}
	}
	for _, l := range t.Leaf {
		e := firstEntry(l.P)
		if e < 0 {
			out.Leaf = append(out.Leaf, l)
			continue
		}
		if len(l.P) == e+2 {
			if n := f.DS.Node(l.P[:e+1].SPath()); n != nil {
				for _, k := range n.Keys {
					if k == l.P[e+1].N {
						out.Leaf = append(out.Leaf, l)
					}
				}
			}
		}
	}
	for _, o := range t.Ord {
		if firstEntry(o.P) < 0 {
			out.Ord = append(out.Ord, o)
		}
	}
	return out.Canon()
}
