package plans

import (
	"math/rand"

	"verif/internal/core"
	"verif/internal/dval"
)

// typedConvCases: conversions into the types that are not numbers (C10): the case names what the
// source denotes (`want', canonical text) and whether the target type contains it (`member').
func typedConvCases(l *dval.Lines, tier string, r *rand.Rand, emit func(core.Case)) {
	type src = map[string]any
	s := func(v string) src { return src{"go": "string", "v": v} }
	add := func(leaf, f string, source src, member bool, want string) {
		emit(core.Case{"kind": "convx", "leaf": leaf, "fmt": f, "src": source, "member": member, "want": want})
	}
	// boolean
	add("b", "boolean", src{"go": "bool", "v": "true"}, true, "true")
	add("b", "boolean", src{"go": "bool", "v": "false"}, true, "false")
	add("b", "boolean", s("true"), true, "true")
	add("b", "boolean", s("false"), true, "false")
	// "1" / "yes" / "0" are lenient spellings the library takes on purpose: same truth value, not generated
	for _, bad := range []string{"abc", "", "truefalse", "2", "-1", "t rue", "TRUE "} {
		add("b", "boolean", s(bad), false, "")
	}
	// string: the text itself, nothing trimmed or folded
	for _, t := range []string{"", " ", " a ", "a\tb", "é", "日本", "0", "007", "+1", "1e3", "true", "a\nb", "\"q\"", "%41", "a/b"} {
		add("s", "string", s(t), true, t)
	}
	add("s", "string", src{"go": "int", "v": "5"}, true, "5")
	add("s", "string", src{"go": "int64", "v": "-9223372036854775808"}, true, "-9223372036854775808")
	add("s", "string", src{"go": "uint64", "v": "18446744073709551615"}, true, "18446744073709551615")
	add("s", "string", src{"go": "bool", "v": "true"}, true, "true")
	add("s", "string", src{"go": "jsonnumber", "v": "12345678901234567890"}, true, "12345678901234567890")
	// binary: RFC 7950 9.8 base64
	add("bin", "binary", s("AQID"), true, "AQID")
	add("bin", "binary", s("aGk="), true, "aGk=")
	add("bin", "binary", s(""), true, "")
	add("bin", "binary", src{"go": "bytes", "v": "hi"}, true, "aGk=")
	for _, bad := range []string{"!!!", "AQI", "A=ID", "aGk"} {
		add("bin", "binary", s(bad), false, "")
	}
	// enumeration zeta=0 one=1 alpha=5
	for _, e := range []struct{ l, v string }{{"zeta", "0"}, {"one", "1"}, {"alpha", "5"}} {
		add("en", "enumeration", s(e.l), true, e.l)
		add("en", "enumeration", src{"go": "int", "v": e.v}, true, e.l)
	}
	for _, bad := range []string{"nope", "", "Zeta", "zeta ", "one alpha"} {
		add("en", "enumeration", s(bad), false, "")
	}
	for _, bad := range []string{"2", "3", "4", "6", "-1", "70000"} {
		add("en", "enumeration", src{"go": "int", "v": bad}, false, "")
	}
	add("len", "enumeration-list", src{"go": "strings", "l": []string{"one", "alpha"}}, true, "one alpha")
	add("len", "enumeration-list", src{"go": "strings", "l": []string{"alpha", "zeta", "alpha"}}, true, "alpha zeta alpha")
	add("len", "enumeration-list", src{"go": "anys", "l": []string{"zeta"}}, true, "zeta")
	add("len", "enumeration-list", src{"go": "ints", "l": []string{"5", "0"}}, true, "alpha zeta")
	add("len", "enumeration-list", src{"go": "strings", "l": []string{"one", "nope"}}, false, "")
	add("len", "enumeration-list", src{"go": "ints", "l": []string{"1", "3"}}, false, "")
	// bits b0 b1 b5: canonical order is by position
	add("bt", "bits", s("b0"), true, "b0")
	add("bt", "bits", s("b0 b5"), true, "b0 b5")
	add("bt", "bits", s("b5 b0"), true, "b0 b5")
	add("bt", "bits", s("b1 b0 b5"), true, "b0 b1 b5")
	add("bt", "bits", src{"go": "strings", "l": []string{"b1"}}, true, "b1")
	add("bt", "bits", src{"go": "strings", "l": []string{"b5", "b1"}}, true, "b1 b5")
	for _, bad := range []string{"b9", "b0 b9", "B0", "b0,b1"} {
		add("bt", "bits", s(bad), false, "")
	}
	// identityref base ibase: d1, d2 (derived from d1); `other' is not derived from it
	for _, id := range []string{"d1", "d2"} {
		add("idr", "identityref", s(id), true, id)
		add("idr", "identityref", s("cx:"+id), true, id)
	}
	for _, bad := range []string{"other", "nope", "", "cx:other", "D1"} {
		add("idr", "identityref", s(bad), false, "")
	}
	// union { int32; boolean }
	add("un", "union", src{"go": "int", "v": "5"}, true, "5")
	add("un", "union", src{"go": "int", "v": "-2147483648"}, true, "-2147483648")
	add("un", "union", src{"go": "bool", "v": "true"}, true, "true")
	add("un", "union", s("17"), true, "17")
	add("un", "union", s("false"), true, "false")
	for _, bad := range []string{"abc", "", "1.5", "99999999999", "truee"} {
		add("un", "union", s(bad), false, "")
	}
	add("un", "union", src{"go": "int64", "v": "99999999999"}, false, "")
	add("un", "union", src{"go": "float64", "v": "1.5"}, false, "")
	// union { int32; string }: text that is not a number is the string, untouched
	for _, t := range []string{"idle", " idle", "idle ", "  two words\t", "\u00a0caf\u00e9\u00a0", " ", "a b"} {
		add("us", "union", s(t), true, t)
	}
	add("us", "union", src{"go": "int", "v": "7"}, true, "7")
	// lists of strings and booleans
	add("ls", "string-list", src{"go": "strings", "l": []string{"a", " b ", ""}}, true, "a\x1f b \x1f")
	add("ls", "string-list", src{"go": "anys", "l": []string{"x", "y"}}, true, "x\x1fy")
	add("lb", "boolean-list", src{"go": "bools", "l": []string{"true", "false", "true"}}, true, "true false true")
	add("lb", "boolean-list", src{"go": "strings", "l": []string{"true", "false"}}, true, "true false")
	add("lb", "boolean-list", src{"go": "strings", "l": []string{"true", "maybe"}}, false, "")
}
