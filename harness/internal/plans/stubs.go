package plans

import (
	"math/rand"

	"verif/internal/core"
	"verif/internal/dval"
)

func typedConvCases(l *dval.Lines, tier string, r *rand.Rand, emit func(core.Case)) {}
