package plans

import (
	"math/rand"

	"verif/internal/core"
	"verif/internal/dval"
)

func lookupCases(l *dval.Lines, tier string, r *rand.Rand, emit func(core.Case))    {}
func typedConvCases(l *dval.Lines, tier string, r *rand.Rand, emit func(core.Case)) {}
