package plans

import (
	"math/rand"

	"verif/internal/abs"
	"verif/internal/core"
	_ "verif/internal/djson"
	"verif/internal/fx"
	"verif/internal/gen"
)

func init() {
	Registry["C15"] = planC15
	Registry["C04"] = planC04
}

// startSelections: root, every container / list / entry, and some leaves of a tree.
func startSelections(f *fx.Fixture, t *abs.Tree, r *rand.Rand, leaves int) []abs.Path {
	out := gen.Nodes(t)
	if len(t.Leaf) > 0 {
		for i := 0; i < leaves; i++ {
			out = append(out, t.Leaf[r.Intn(len(t.Leaf))].P)
		}
	}
	return out
}

func jsonStage(fname string, r *rand.Rand, n int, faults, roundtrip bool, gp gen.Params) (core.Stage, error) {
	f, err := fx.Load(fname)
	if err != nil {
		return core.Stage{}, err
	}
	if err := f.CheckDS(); err != nil {
		return core.Stage{}, err
	}
	stores, _ := storesFor(fname)
	return core.Stage{Name: fname, EvalMod: "EvalJson", EvalEnv: map[string]string{"SCHEMA": f.DSFile},
		Cases: func(emit func(core.Case)) {
			g := &gen.G{DS: f.DS, R: r, P: gp}
			// every schema node is written (and read back) at least once, on every kind of store
			for i, t := range coverTrees(f, r) {
				for k, store := range stores {
					emit(core.Case{"kind": "jsonw", "fixture": fname, "store": store, "tree": t, "at": abs.Path{},
						"enumids": (i+k)%4 == 0, "qualify": (i+k)%2 == 0, "faults": false, "roundtrip": roundtrip})
				}
			}
			for i := 0; i < n; i++ {
				t := g.Subtree(abs.Path{})
				sels := startSelections(f, t, r, 2)
				// every start selection of small trees, a sample of large ones
				if len(sels) > 6 {
					r.Shuffle(len(sels), func(a, b int) { sels[a], sels[b] = sels[b], sels[a] })
					sels = sels[:6]
				}
				for _, at := range sels {
					emit(core.Case{"kind": "jsonw", "fixture": fname, "store": stores[r.Intn(len(stores))], "tree": t, "at": at,
						"enumids": r.Intn(4) == 0, "qualify": r.Intn(2) == 0, "faults": faults && r.Intn(3) == 0, "roundtrip": roundtrip})
				}
			}
		}}, nil
}

// jsonStringStage: every string class at every position, in leaves, leaf-list elements
// and (for the classes a URL path can carry) list keys.
func jsonStringStage(r *rand.Rand, per int, roundtrip bool) (core.Stage, error) {
	f, err := fx.Load("S0")
	if err != nil {
		return core.Stage{}, err
	}
	return core.Stage{Name: "S0-strings", EvalMod: "EvalJson", EvalEnv: map[string]string{"SCHEMA": f.DSFile},
		Cases: func(emit func(core.Case)) {
			classes := gen.StringClasses()
			for i := 0; i < len(classes); i += 3 {
				hi := i + 3
				if hi > len(classes) {
					hi = len(classes)
				}
				gp := gen.Default
				gp.PLeaf, gp.PCont, gp.PList = 0.9, 0.8, 0.8
				g := &gen.G{DS: f.DS, R: r, P: gp, StrVocab: classes[i:hi]}
				for k := 0; k < per; k++ {
					t := g.Subtree(abs.Path{})
					emit(core.Case{"kind": "jsonw", "fixture": "S0", "store": []string{"rmap", "nslice", "nstruct"}[k%3], "tree": t, "at": abs.Path{},
						"enumids": false, "qualify": k%2 == 0, "faults": false, "roundtrip": roundtrip})
				}
			}
		}}, nil
}

func planC15(tier string, seed int64) (*core.Plan, error) {
	r := rng(seed)
	n := 120
	if tier == "thorough" {
		n = 2500
	}
	mn := 2
	if tier == "thorough" {
		mn = 3
	}
	model, err := storeModelRun("FcJsonModel", mn, 60)
	if err != nil {
		return nil, err
	}
	model.Description = "FcJsonModel: for every tree reachable in the store state machine and every writer configuration, the canonical JSON document (from the root and from every container / entry) is admitted by DocCheck and reads back to exactly the tree; " + model.Description
	p := &core.Plan{Property: "C15", Tier: tier, Seed: seed, Level: "model_checking",
		Models: []core.ModelRun{model},
		Rule:   "seeded random trees on S0, S1, S2 (every built-in leaf type), S4 (augmenting module); for each tree every start selection kind (root, container, list, list entry, leaf) x writer configuration (EnumAsIds, QualifyNamespace; compact and pretty) on a random store kind; output stream failing at byte 0, 1, n/2, n-1, n; non-trivial: the selection holds at least one node",
		NonTrivial: func(r core.Rec) bool { return r["chk"] == "jsondoc" },
		Assumptions: []string{"the bytes written are decoded with encoding/json (UseNumber, one value then EOF, json.Valid) into the abstract document; numerals are canonicalised with math/big"},
	}
	for _, fname := range []string{"S0", "S1", "S2", "S4", "S7"} {
		st, err := jsonStage(fname, r, n/4, true, false, gen.Default)
		if err != nil {
			return nil, err
		}
		p.Stages = append(p.Stages, st)
	}
	// S7 once more, densely populated and always module-qualified: members that another module
	// adds below a choice, leaf-lists of an imported grouping
	{
		f, err := fx.Load("S7")
		if err != nil {
			return nil, err
		}
		stores, _ := storesFor("S7")
		p.Stages = append(p.Stages, core.Stage{Name: "S7-qualified", EvalMod: "EvalJson", EvalEnv: map[string]string{"SCHEMA": f.DSFile},
			Cases: func(emit func(core.Case)) {
				gp := gen.Default
				gp.PLeaf, gp.PCont, gp.PList = 0.9, 0.95, 0.9
				g := &gen.G{DS: f.DS, R: r, P: gp}
				for i := 0; i < n/6+4; i++ {
					t := g.Subtree(abs.Path{})
					for _, at := range startSelections(f, t, r, 0) {
						emit(core.Case{"kind": "jsonw", "fixture": "S7", "store": stores[r.Intn(len(stores))], "tree": t, "at": at,
							"enumids": false, "qualify": true, "faults": false, "roundtrip": false})
					}
				}
			}})
	}
	per := 1
	if tier == "thorough" {
		per = 6
	}
	st, err := jsonStringStage(r, per, false)
	if err != nil {
		return nil, err
	}
	p.Stages = append(p.Stages, st)
	return p, nil
}

func planC04(tier string, seed int64) (*core.Plan, error) {
	r := rng(seed)
	n := 120
	if tier == "thorough" {
		n = 2500
	}
	mn := 2
	if tier == "thorough" {
		mn = 3
	}
	model, err := storeModelRun("FcJsonModel", mn, 60)
	if err != nil {
		return nil, err
	}
	model.Description = "FcJsonModel: JSON round trip law Read(Doc(T)) = T and DocCheck admits Doc(T) over every reachable tree; " + model.Description
	p := &core.Plan{Property: "C04", Tier: tier, Seed: seed, Level: "model_checking",
		Models: []core.ModelRun{model},
		Rule:   "seeded random trees on S0, S1, S2; export of every start selection as JSON (document compared with the abstract rendering: every node once, schema order, entries in source order) and the library's own reader on that text into an empty store (round trip), plus export into every other store kind (UpsertInto); non-trivial: the exported selection holds data",
		NonTrivial: func(r core.Rec) bool { return true },
	}
	gp := gen.Default
	gp.PLeaf = 0.7
	for _, fname := range []string{"S0", "S1", "S2", "S4", "S7"} {
		st, err := jsonStage(fname, r, n/4, false, true, gp)
		if err != nil {
			return nil, err
		}
		p.Stages = append(p.Stages, st)
	}
	per := 1
	if tier == "thorough" {
		per = 4
	}
	st, err := jsonStringStage(r, per, true)
	if err != nil {
		return nil, err
	}
	p.Stages = append(p.Stages, st)
	return p, nil
}
