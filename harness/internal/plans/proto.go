package plans

import (
	"verif/internal/abs"
	"verif/internal/core"
	_ "verif/internal/dproto"
	"verif/internal/fx"
	"verif/internal/gen"
)

func init() {
	Registry["C12"] = planC12
}

func planC12(tier string, seed int64) (*core.Plan, error) {
	r := rng(seed)
	n := 100
	if tier == "thorough" {
		n = 300
	}
	p := &core.Plan{Property: "C12", Tier: tier, Seed: seed, Level: "fault_enumeration",
		Models: []core.ModelRun{
			{TLC: core.TLCRun{Module: "EditProtoModel", Cfg: "EditProtoModel.cfg", Workers: 8},
				Description: "the intended edit protocol (begin, bubbling to the ancestors of the edit root, visit, deferred end in reverse order) as a state machine over 6 tree shapes, every entry point and a fault at every callback position: the monitor of EditProto never reports a violation"},
			{TLC: core.TLCRun{Module: "EditProtoModel", Cfg: "EditProtoDefect.cfg", Workers: 4}, ExpectViol: "NoViolation",
				Description: "the same machine with the deferred end skipped after an error: TLC finds the monitor's violation (the monitor is not vacuous)"},
		},
		Rule: "seeded scenarios on S0 and S1 (strategy upsert / insert / update x random pre tree x entry point root / container / list / entry x random source subtree, and Delete of a random node), each run once fault free to learn its N node callbacks (Child, Next, Field, Choose, BeginEdit, EndEdit on recording wrappers around the real target nodes and the JSON source) and then once for EVERY k in 1..N with the k-th callback returning a sentinel error; non-trivial: a run with an injected fault",
		NonTrivial: func(r core.Rec) bool {
			k, _ := r["k"].(int)
			return k > 0
		},
		Assumptions: []string{"node identity = data path of the wrapper that received the callback", "Choose callbacks are recorded but not failed: the editor documents that it ignores Choose errors of the target"},
	}
	for _, fname := range []string{"S0", "S1"} {
		f, err := fx.Load(fname)
		if err != nil {
			return nil, err
		}
		if err := f.CheckDS(); err != nil {
			return nil, err
		}
		stores, _ := storesFor(fname)
		p.Stages = append(p.Stages, core.Stage{Name: fname, EvalMod: "EvalProto",
			Cases: func(emit func(core.Case)) {
				gp := gen.Default
				gp.PLeaf, gp.PCont, gp.PList, gp.MaxEntries = 0.5, 0.6, 0.6, 2
				g := &gen.G{DS: f.DS, R: r, P: gp}
				for i := 0; i < n/2; i++ {
					pre := g.Subtree(abs.Path{})
					nodes := gen.Nodes(pre)
					at := nodes[r.Intn(len(nodes))]
					k := []string{"upsert", "insert", "update", "delete"}[i%4]
					if k == "delete" && len(at) == 0 {
						if len(nodes) < 2 {
							continue
						}
						at = nodes[1+r.Intn(len(nodes)-1)]
					}
					var s *abs.Tree
					if k != "delete" {
						s = g.Subtree(at)
						if k == "insert" {
							// insert into an empty target so that the scenario itself succeeds
							pre = gen.WithAncestors(f.DS, abs.NewTree(), at)
						}
						if k == "update" {
							s = pre.Clone() // update what exists
							s = subtreeOf(s, at)
						}
					}
					emit(core.Case{"kind": "proto", "fixture": fname, "store": stores[i%len(stores)], "pre": pre,
						"op": editOp{K: k, At: at, S: s, Src: "json"}})
				}
				// two independent trees: the source mostly carries another case of a choice than the
				// target holds, so the editor clears the old case - callbacks of that clearing fail too
				gp.PLeaf, gp.PCont = 0.7, 0.8
				g2 := &gen.G{DS: f.DS, R: r, P: gp}
				for i := 0; i < n/4; i++ {
					pre, s := g2.Subtree(abs.Path{}), g2.Subtree(abs.Path{})
					emit(core.Case{"kind": "proto", "fixture": fname, "store": stores[i%len(stores)], "pre": pre,
						"op": editOp{K: []string{"upsert", "update"}[i%2], At: abs.Path{}, S: s, Src: "json"}})
				}
			}})
	}
	return p, nil
}

func subtreeOf(t *abs.Tree, at abs.Path) *abs.Tree {
	out := abs.NewTree()
	for _, l := range t.Leaf {
		if l.P.HasPrefix(at) {
			out.Leaf = append(out.Leaf, l)
		}
	}
	for _, c := range t.Cont {
		if c.HasPrefix(at) {
			out.Cont = append(out.Cont, c)
		}
	}
	for _, o := range t.Ord {
		if o.P.HasPrefix(at) {
			out.Ord = append(out.Ord, o)
		}
	}
	return out.Canon()
}
