package plans

import (
	"sort"

	"verif/internal/abs"
	"verif/internal/core"
	_ "verif/internal/daccept"
	"verif/internal/dval"
	"verif/internal/fx"
)

func init() {
	Registry["C05"] = planC05
}

var strCands = []string{"", "a", "ab", "abc", "abcd", "abcde", "abcdef", "é", "éé", "ééé", "éééé", "b", "zb", "bz", "c", "A", "a1", "12a", "9", "aaa", "cab", "xyz", "cd", "xy", "abz", "zcdz", "zxy", "tmp", "lost", "tmpfiles", "notlost", "abc-1", "123"}

// numCands: every bound of every level and its neighbours on the spec's number line, the
// base type's extremes and their neighbours, and fractions.
func numCands(l *dval.Lines, n *abs.SNode) []string {
	idx := map[string]int{}
	for i, p := range l.Num {
		idx[p] = i
	}
	pick := map[string]bool{}
	add := func(p string) {
		i, ok := idx[p]
		if !ok {
			return
		}
		for d := -1; d <= 1; d++ {
			if i+d >= 0 && i+d < len(l.Num) {
				pick[l.Num[i+d]] = true
			}
		}
	}
	levels := n.T.Levels
	for _, m := range n.T.Members {
		levels = append(levels, m.Levels...)
	}
	for _, lv := range levels {
		for _, a := range lv.Ranges {
			add(a.Lo)
			add(a.Hi)
		}
	}
	if lo, ok := l.Lo[n.T.Base]; ok {
		add(lo)
		add(l.Hi[n.T.Base])
	}
	add("0")
	var out []string
	for p := range pick {
		out = append(out, p)
	}
	sort.Strings(out)
	return out
}

func planC05(tier string, seed int64) (*core.Plan, error) {
	r := rng(seed)
	l, err := dval.SpecLines()
	if err != nil {
		return nil, err
	}
	f, err := fx.Load("S6")
	if err != nil {
		return nil, err
	}
	if err := f.CheckDS(); err != nil {
		return nil, err
	}
	p := &core.Plan{Property: "C05", Tier: tier, Seed: seed, Level: "model_checking",
		Models: []core.ModelRun{{
			TLC:         core.TLCRun{Module: "YangTypesModel", Workers: 16},
			Description: "typedef chains of up to 2 levels over int8, each level 1-2 range alternatives with bounds from {-128,-1,0,100,127,min,max}: adding a level never accepts more, acceptance = conjunction of levels, min/max = bounds of the base type, for 14 candidate points incl. neighbours and a fraction",
		}},
		Rule: "fixture S6 rendered from a type table (27 restricted leaves: range alternatives, open ends, min/max, single values, negative and 64-bit bounds, decimal64, typedef chains of 2-3 narrowing levels, length in characters, several patterns, invert-match, enumeration, bits, identityref, union, leaf-lists); per leaf every bound and its neighbours on the spec's number line / a vocabulary of 22 strings, written through Set, SetValue, UpsertFrom JSON / XML / map on two store kinds, with and without an earlier value; non-trivial: the candidate is within 1 of a bound or violates a restriction",
		NonTrivial: func(r core.Rec) bool { return r["chk"] == "accept" },
		Assumptions: []string{"string length (characters) and pattern matches (Go regexp, anchored) of each candidate are computed by the harness; the specification owns the combination logic", "S6's YANG text and its type descriptors are rendered from one table (harness/internal/fx/s6.go)"},
	}
	paths := []string{"set", "setvalue", "json", "xml", "map"}
	stores := []string{"rmap", "nmap"}
	p.Stages = append(p.Stages, core.Stage{Name: "S6", EvalMod: "EvalAccept", EvalEnv: map[string]string{"SCHEMA": f.DSFile},
		Cases: func(emit func(core.Case)) {
			i := 0
			for ni := range f.DS {
				n := &f.DS[ni]
				if n.Kind != "leaf" && n.Kind != "leaflist" {
					continue
				}
				var cands []string
				switch n.T.Base {
				case "string":
					cands = strCands
				case "enumeration":
					cands = []string{"zeta", "one", "alpha", "nope", ""}
				case "bits":
					cands = []string{"b0", "b0 b5", "b1 b0", "b9", "b0 nope"}
				case "identityref":
					cands = []string{"ibase", "iderived", "other", "nope"}
				case "union":
					cands = append(numCands(l, n), "ab", "abc", "abcd", "x", "")
				default:
					cands = numCands(l, n)
				}
				emitOne := func(vs []string, path string) {
					i++
					var pre []string
					if i%3 == 0 && len(cands) > 0 {
						pre = []string{}
					}
					emit(core.Case{"kind": "accept", "fixture": "S6", "store": stores[i%2], "leaf": n.SP, "vs": vs, "path": path, "pre": pre})
				}
				for _, c := range cands {
					for _, path := range paths {
						if tier == "quick" && r.Intn(100) >= 45 {
							continue
						}
						if n.Kind == "leaflist" {
							emitOne([]string{c}, path)
							other := cands[r.Intn(len(cands))]
							emitOne([]string{other, c}, path)
							emitOne([]string{c, other, cands[r.Intn(len(cands))]}, path)
						} else {
							emitOne([]string{c}, path)
						}
					}
				}
			}
		}})
	return p, nil
}
