package plans

import (
	"math/rand"

	"verif/internal/abs"
	"verif/internal/core"
	_ "verif/internal/dxml"
	"verif/internal/fx"
	"verif/internal/gen"
)

func init() {
	Registry["C19"] = planC19
}

func xmlStage(fname string, r *rand.Rand, n int, strs []string) (core.Stage, error) {
	f, err := fx.Load(fname)
	if err != nil {
		return core.Stage{}, err
	}
	if err := f.CheckDS(); err != nil {
		return core.Stage{}, err
	}
	stores, _ := storesFor(fname)
	name := fname
	if strs != nil {
		name += "-strings"
	}
	return core.Stage{Name: name, EvalMod: "EvalXml", EvalEnv: map[string]string{"SCHEMA": f.DSFile},
		Cases: func(emit func(core.Case)) {
			gp := gen.Default
			gp.PLeaf, gp.PCont, gp.PList = 0.7, 0.7, 0.7
			// every schema node is written (and read back) at least once, on every kind of store
			for i, t := range coverTreesIf(strs == nil, f, r) {
				for k, store := range stores {
					emit(core.Case{"kind": "xmlw", "fixture": fname, "store": store, "tree": t, "at": abs.Path{},
						"enumids": (i+k)%5 == 0, "interleave": 1 + r.Intn(1000000)})
				}
			}
			for i := 0; i < n; i++ {
				g := &gen.G{DS: f.DS, R: r, P: gp}
				if strs != nil {
					lo := (i * 3) % len(strs)
					hi := lo + 3
					if hi > len(strs) {
						hi = len(strs)
					}
					g.StrVocab = strs[lo:hi]
				}
				t := g.Subtree(abs.Path{})
				sels := []abs.Path{{}}
				nodes := gen.Nodes(t)
				for k := 0; k < 3 && len(nodes) > 1; k++ {
					sels = append(sels, nodes[1+r.Intn(len(nodes)-1)])
				}
				for _, at := range sels {
					emit(core.Case{"kind": "xmlw", "fixture": fname, "store": stores[r.Intn(len(stores))], "tree": t, "at": at,
						"enumids": r.Intn(5) == 0, "interleave": 1 + r.Intn(1000000)})
				}
			}
		}}, nil
}

func planC19(tier string, seed int64) (*core.Plan, error) {
	r := rng(seed)
	n := 90
	if tier == "thorough" {
		n = 2000
	}
	mn := 2
	if tier == "thorough" {
		mn = 3
	}
	model, err := storeModelRun("FcXmlModel", mn, 90)
	if err != nil {
		return nil, err
	}
	model.MustCover = nil
	model.Description = "FcXmlModel: for every tree reachable in the store state machine the canonical XML document is admitted by XmlDocCheck, reads back to exactly the tree, and so does every interleaving of the root's children that keeps the order of same-named elements; " + model.Description
	p := &core.Plan{Property: "C19", Tier: tier, Seed: seed, Level: "model_checking",
		Models: []core.ModelRun{model},
		Rule:   "seeded random trees on S0, S1, S2 (every leaf type), S4 (augmenting module, namespaces) and a stage with every string class (markup characters, quotes, CDATA terminator, leading/trailing/inner whitespace, control characters, non-ASCII) on S0; per tree the root and 3 random start selections (container, list, list entry) written by both XML writers (WriteXMLDoc and streaming XMLWtr), parsed with encoding/xml; the library's reader on WriteXMLDoc's output and on a harness-rendered document with randomly interleaved siblings, upserted into an empty store; non-trivial: the selection holds data",
		NonTrivial: func(r core.Rec) bool { return r["chk"] != "skip" },
		Assumptions: []string{"writer output is parsed by the standard library's encoding/xml (strict), not by the library's patched copy", "interleaved documents are rendered by the harness (dumb renderer: schema order per group, random merge)"},
	}
	for _, fname := range []string{"S0", "S1", "S2", "S4", "S7"} {
		st, err := xmlStage(fname, r, n/4, nil)
		if err != nil {
			return nil, err
		}
		p.Stages = append(p.Stages, st)
	}
	st, err := xmlStage("S0", r, n/3, gen.XMLStringClasses())
	if err != nil {
		return nil, err
	}
	p.Stages = append(p.Stages, st)
	return p, nil
}
