package plans

import (
	"bytes"
	"encoding/json"
	stdxml "encoding/xml"
	"fmt"
	"math/rand"
	"regexp"
	"sort"
	"strings"
	"time"

	"verif/internal/abs"
	"verif/internal/core"
	_ "verif/internal/drobust"
	"verif/internal/dxml"
	"verif/internal/fx"
	"verif/internal/gen"
)

func init() {
	Registry["C13"] = planC13
}

// ---------------------------------------------------------------- JSON documents

func decodeJSON(text string) any {
	dec := json.NewDecoder(strings.NewReader(text))
	dec.UseNumber()
	var v any
	if err := dec.Decode(&v); err != nil {
		return nil
	}
	return v
}

func localName(k string) string {
	if i := strings.IndexByte(k, ':'); i >= 0 {
		return k[i+1:]
	}
	return k
}

type docMut struct {
	what, shape string
	doc         any
}

func deepCopy(v any) any {
	switch x := v.(type) {
	case map[string]any:
		m := map[string]any{}
		for k, e := range x {
			m[k] = deepCopy(e)
		}
		return m
	case []any:
		out := make([]any, len(x))
		for i, e := range x {
			out[i] = deepCopy(e)
		}
		return out
	}
	return v
}

// jsonShapeMuts: at every member of the document (every schema position the document
// reaches), each shape the schema does not declare there.
func jsonShapeMuts(f *fx.Fixture, doc any, atSP []string) []docMut {
	var out []docMut
	type pos struct {
		path []any // keys / indexes from the root of the document
		sp   []string
	}
	set := func(root any, path []any, v any, del bool) any {
		cp := deepCopy(root)
		cur := cp
		for i := 0; i < len(path)-1; i++ {
			switch k := path[i].(type) {
			case string:
				cur = cur.(map[string]any)[k]
			case int:
				cur = cur.([]any)[k]
			}
		}
		last := path[len(path)-1]
		switch k := last.(type) {
		case string:
			if del {
				delete(cur.(map[string]any), k)
			} else {
				cur.(map[string]any)[k] = v
			}
		case int:
			cur.([]any)[k] = v
		}
		return cp
	}
	var walk func(v any, path []any, sp []string)
	walk = func(v any, path []any, sp []string) {
		obj, ok := v.(map[string]any)
		if !ok {
			return
		}
		var keys []string
		for k := range obj {
			keys = append(keys, k)
		}
		sort.Strings(keys)
		for _, k := range keys {
			csp := append(append([]string{}, sp...), localName(k))
			n := f.DS.Node(csp)
			if n == nil {
				continue
			}
			p := append(append([]any{}, path...), k)
			add := func(what, shape string, nv any) {
				out = append(out, docMut{n.Kind + ":" + what, shape, set(doc, p, nv, false)})
			}
			switch n.Kind {
			case "container":
				add("string-for-container", "shape-mismatch", "x")
				add("number-for-container", "shape-mismatch", json.Number("7"))
				add("bool-for-container", "shape-mismatch", true)
				add("scalars-for-container", "shape-mismatch", []any{json.Number("1")})
				add("empty-array-for-container", "pathological", []any{})
				add("objects-for-container", "pathological", []any{obj[k]})
				add("null-for-container", "pathological", nil)
				add("unknown-member", "pathological", map[string]any{"no-such-member": map[string]any{"a": []any{}}})
				walk(obj[k], p, csp)
			case "list":
				arr, _ := obj[k].([]any)
				add("empty-object-for-list", "shape-mismatch", map[string]any{})
				if len(arr) > 0 {
					add("object-for-list", "shape-mismatch", arr[0])
					if e, ok := arr[0].(map[string]any); ok {
						nokey := deepCopy(e).(map[string]any)
						for _, kn := range n.Keys {
							for ek := range nokey {
								if localName(ek) == kn {
									delete(nokey, ek)
								}
							}
						}
						add("entry-without-key", "shape-mismatch", []any{nokey})
						if len(n.Keys) > 1 {
							part := deepCopy(e).(map[string]any)
							for ek := range part {
								if localName(ek) == n.Keys[len(n.Keys)-1] {
									delete(part, ek)
								}
							}
							add("entry-without-last-key", "shape-mismatch", []any{part})
						}
						nullkey := deepCopy(e).(map[string]any)
						for ek := range nullkey {
							if localName(ek) == n.Keys[0] {
								nullkey[ek] = nil
							}
						}
						add("entry-null-key", "pathological", []any{nullkey})
						objkey := deepCopy(e).(map[string]any)
						for ek := range objkey {
							if localName(ek) == n.Keys[0] {
								objkey[ek] = map[string]any{"a": 1}
							}
						}
						add("entry-object-key", "shape-mismatch", []any{objkey})
						add("duplicate-entries", "pathological", []any{e, e})
					}
				}
				add("string-for-list", "shape-mismatch", "x")
				add("number-for-list", "shape-mismatch", json.Number("7"))
				add("scalars-in-list", "shape-mismatch", []any{"x", json.Number("1")})
				add("arrays-in-list", "shape-mismatch", []any{[]any{}})
				add("null-entry", "pathological", []any{nil})
				add("empty-entry", "shape-mismatch", []any{map[string]any{}})
				add("null-for-list", "pathological", nil)
				for i, e := range arr {
					walk(e, append(append([]any{}, p...), i), csp)
				}
			case "leaf":
				// RFC 7951 writes a leaf of type empty as [null]; the library also takes {} (its
				// own tests say so), and anydata takes any object
				objShape := "shape-mismatch"
				if n.Type == "empty" || n.Type == "anydata" || n.Type == "any" {
					objShape = "pathological"
				}
				add("object-for-leaf", objShape, map[string]any{"a": json.Number("1")})
				add("empty-object-for-leaf", objShape, map[string]any{})
				add("array-for-leaf", "pathological", []any{json.Number("1"), json.Number("2")})
				add("empty-array-for-leaf", "pathological", []any{})
				add("nested-array-for-leaf", "pathological", []any{[]any{"x"}})
				add("null-for-leaf", "pathological", nil)
				add("bool-for-leaf", "pathological", true)
				add("float-for-leaf", "pathological", json.Number("1.5e300"))
				add("big-for-leaf", "pathological", json.Number("123456789012345678901234567890"))
				add("string-for-leaf", "pathological", "no such value \u0000")
			case "leaflist":
				add("object-for-leaflist", "shape-mismatch", map[string]any{"a": json.Number("1")})
				add("objects-in-leaflist", "shape-mismatch", []any{map[string]any{"a": json.Number("1")}})
				add("scalar-for-leaflist", "pathological", "x")
				add("number-for-leaflist", "pathological", json.Number("7"))
				add("arrays-in-leaflist", "pathological", []any{[]any{"x"}})
				add("nulls-in-leaflist", "pathological", []any{nil})
				add("mixed-leaflist", "pathological", []any{"x", json.Number("1"), true})
				add("null-for-leaflist", "pathological", nil)
			}
		}
	}
	walk(doc, nil, atSP)
	out = append(out, docMut{"root:array", "shape-mismatch", []any{doc}})
	out = append(out, docMut{"root:string", "shape-mismatch", "x"})
	out = append(out, docMut{"root:number", "shape-mismatch", json.Number("1")})
	out = append(out, docMut{"root:null", "pathological", nil})
	return out
}

var jsonTok = regexp.MustCompile(`"(?:[^"\\]|\\.)*"|[\[\]{},:]|[^\[\]{},:"\s]+|\s+`)
var jsonPool = []string{"{", "}", "[", "]", ",", ":", `"x"`, "1", "null", "true", `"`, "-", "1e999", `"\u12"`, "\x00"}

var xmlTok = regexp.MustCompile(`<[^>]*>|[^<]+`)
var xmlPool = []string{"<x>", "</x>", "<x/>", "<", ">", "&", "&amp;", "text", "<!--", "<![CDATA[", "<?xml version=\"1.0\"?>", "<a xmlns=\"urn:none\">", "</", "\x00"}

var pathTok = regexp.MustCompile(`[/=,]|[^/=,]+`)
var pathPool = []string{"/", "=", ",", "..", "%", "%zz", "%2", "%2F", "?", "x", "*", ".", "", " ", "=1", "a=b=c", "\x00", "%00", "+"}

var xpathTok = regexp.MustCompile(`'[^']*'|"[^"]*"|[A-Za-z_][A-Za-z0-9_\-]*|[0-9.]+|!=|<=|>=|\.\.|\s+|.`)
var xpathPool = []string{"=", "!=", "<", ">", "(", ")", "'", "\"", "/", "..", " and ", " or ", "not(", "1", "'x'", "x", "*", "[", "]", "@", "::", "|", "+", "-", ",", "$", "//", ".", "1e999", "99999999999999999999", "\x00"}

// tokenMuts: every truncation at a token boundary, every single-token deletion,
// duplication and substitution (one random pool element, all when every is set).
func tokenMuts(text string, re *regexp.Regexp, pool []string, r *rand.Rand, every bool) (out [][2]string) {
	toks := re.FindAllString(text, -1)
	for i := range toks {
		out = append(out, [2]string{"truncate", strings.Join(toks[:i], "")})
		out = append(out, [2]string{"delete", strings.Join(toks[:i], "") + strings.Join(toks[i+1:], "")})
		out = append(out, [2]string{"dup", strings.Join(toks[:i+1], "") + strings.Join(toks[i:], "")})
		if every {
			for _, p := range pool {
				out = append(out, [2]string{"subst", strings.Join(toks[:i], "") + p + strings.Join(toks[i+1:], "")})
			}
		} else {
			out = append(out, [2]string{"subst", strings.Join(toks[:i], "") + pool[r.Intn(len(pool))] + strings.Join(toks[i+1:], "")})
		}
	}
	return
}

// ---------------------------------------------------------------- XML documents

type xel struct {
	name  string
	ns    string
	text  string
	kids  []*xel
	attrs []string
}

func parseXML(text string) *xel {
	dec := stdxml.NewDecoder(strings.NewReader(text))
	var stack []*xel
	var root *xel
	for {
		tok, err := dec.Token()
		if err != nil {
			break
		}
		switch t := tok.(type) {
		case stdxml.StartElement:
			e := &xel{name: t.Name.Local, ns: t.Name.Space}
			if len(stack) > 0 {
				p := stack[len(stack)-1]
				p.kids = append(p.kids, e)
			} else {
				root = e
			}
			stack = append(stack, e)
		case stdxml.EndElement:
			stack = stack[:len(stack)-1]
		case stdxml.CharData:
			if len(stack) > 0 {
				stack[len(stack)-1].text += string(t)
			}
		}
	}
	return root
}

func (e *xel) render(sb *strings.Builder, parentNS string) {
	sb.WriteString("<" + e.name)
	if e.ns != parentNS {
		sb.WriteString(` xmlns="` + e.ns + `"`)
	}
	for _, a := range e.attrs {
		sb.WriteString(" " + a)
	}
	sb.WriteString(">")
	var b bytes.Buffer
	stdxml.EscapeText(&b, []byte(e.text))
	sb.WriteString(b.String())
	for _, k := range e.kids {
		k.render(sb, e.ns)
	}
	sb.WriteString("</" + e.name + ">")
}

func (e *xel) String() string {
	var sb strings.Builder
	e.render(&sb, "")
	return sb.String()
}

func (e *xel) clone() *xel {
	c := &xel{name: e.name, ns: e.ns, text: e.text, attrs: append([]string{}, e.attrs...)}
	for _, k := range e.kids {
		c.kids = append(c.kids, k.clone())
	}
	return c
}

// xmlShapeMuts: the same idea for an XML document rooted at atSP.
func xmlShapeMuts(f *fx.Fixture, root *xel, atSP []string) (out []docMut) {
	type target struct {
		idx []int
		n   *abs.SNode
	}
	var targets []target
	var walk func(e *xel, idx []int, sp []string)
	walk = func(e *xel, idx []int, sp []string) {
		for i, k := range e.kids {
			csp := append(append([]string{}, sp...), k.name)
			n := f.DS.Node(csp)
			if n == nil {
				continue
			}
			ci := append(append([]int{}, idx...), i)
			targets = append(targets, target{ci, n})
			if n.Kind == "container" || n.Kind == "list" {
				walk(k, ci, csp)
			}
		}
	}
	walk(root, nil, atSP)
	for _, tg := range targets {
		mut := func(what, shape string, fn func(e *xel, parent *xel, i int)) {
			cp := root.clone()
			parent := cp
			for _, i := range tg.idx[:len(tg.idx)-1] {
				parent = parent.kids[i]
			}
			i := tg.idx[len(tg.idx)-1]
			fn(parent.kids[i], parent, i)
			out = append(out, docMut{tg.n.Kind + ":" + what, shape, cp.String()})
		}
		switch tg.n.Kind {
		case "container":
			mut("text-for-container", "shape-mismatch", func(e, _ *xel, _ int) { e.kids = nil; e.text = "x" })
			mut("empty-container", "valid", func(e, _ *xel, _ int) { e.kids = nil })
			mut("mixed-content", "pathological", func(e, _ *xel, _ int) { e.text = "x" })
			mut("twice", "pathological", func(e, p *xel, i int) { p.kids = append(p.kids, e.clone()) })
			mut("unknown-child", "pathological", func(e, _ *xel, _ int) { e.kids = append(e.kids, &xel{name: "no-such", ns: e.ns, text: "x"}) })
			mut("wrong-namespace", "pathological", func(e, _ *xel, _ int) { e.ns = "urn:none" })
			mut("attribute", "pathological", func(e, _ *xel, _ int) { e.attrs = []string{`operation="delete"`} })
		case "list":
			mut("text-for-entry", "shape-mismatch", func(e, _ *xel, _ int) { e.kids = nil; e.text = "x" })
			mut("empty-entry", "shape-mismatch", func(e, _ *xel, _ int) { e.kids = nil })
			mut("entry-without-key", "shape-mismatch", func(e, _ *xel, _ int) {
				var kids []*xel
				for _, k := range e.kids {
					isKey := false
					for _, kn := range tg.n.Keys {
						if k.name == kn {
							isKey = true
						}
					}
					if !isKey {
						kids = append(kids, k)
					}
				}
				e.kids = kids
			})
			if len(tg.n.Keys) > 1 {
				mut("entry-without-last-key", "shape-mismatch", func(e, _ *xel, _ int) {
					var kids []*xel
					for _, k := range e.kids {
						if k.name != tg.n.Keys[len(tg.n.Keys)-1] {
							kids = append(kids, k)
						}
					}
					e.kids = kids
				})
			}
			mut("key-twice", "pathological", func(e, _ *xel, _ int) {
				for _, k := range e.kids {
					if k.name == tg.n.Keys[0] {
						e.kids = append(e.kids, k.clone())
						return
					}
				}
			})
			mut("key-with-children", "shape-mismatch", func(e, _ *xel, _ int) {
				for _, k := range e.kids {
					if k.name == tg.n.Keys[0] {
						k.kids = []*xel{{name: "a", ns: k.ns, text: "1"}}
						k.text = ""
						return
					}
				}
			})
			mut("entry-twice", "pathological", func(e, p *xel, i int) { p.kids = append(p.kids, e.clone()) })
		case "leaf":
			mut("element-in-leaf", "shape-mismatch", func(e, _ *xel, _ int) { e.kids = []*xel{{name: "a", ns: e.ns, text: "1"}}; e.text = "" })
			mut("empty-leaf", "pathological", func(e, _ *xel, _ int) { e.text = "" })
			mut("leaf-twice", "pathological", func(e, p *xel, i int) { p.kids = append(p.kids, e.clone()) })
			mut("garbage-leaf", "pathological", func(e, _ *xel, _ int) { e.text = "no such value" })
			mut("big-leaf", "pathological", func(e, _ *xel, _ int) { e.text = "123456789012345678901234567890" })
		case "leaflist":
			mut("element-in-leaflist", "shape-mismatch", func(e, _ *xel, _ int) { e.kids = []*xel{{name: "a", ns: e.ns, text: "1"}}; e.text = "" })
			mut("empty-leaflist-element", "pathological", func(e, _ *xel, _ int) { e.text = "" })
		}
	}
	return
}

// ---------------------------------------------------------------- paths, queries, xpath, values

func pathCases(f *fx.Fixture, t *abs.Tree) (out [][3]string) {
	add := func(what, shape, text string) { out = append(out, [3]string{what, shape, text}) }
	for _, c := range t.Cont {
		n := f.DS.Node(c.SPath())
		if n == nil {
			continue
		}
		p := fx.URLPath(c)
		switch {
		case c.IsEntry():
			add("entry:extra-key", "pathological", p+",extra")
			add("entry:step-on-key-value", "pathological", p+"=again")
			add("entry:empty-key", "pathological", p[:strings.LastIndexByte(p, '=')+1])
			add("entry:unknown-step", "pathological", p+"/no-such")
			if len(n.Keys) > 1 {
				add("entry:too-few-keys", "pathological", p[:strings.LastIndexByte(p, ',')])
			}
		case n.Kind == "container":
			add("container:key-on-container", "shape-mismatch", p+"=1")
			add("container:keys-on-container", "shape-mismatch", p+"=1,2/x")
			add("container:unknown-step", "pathological", p+"/no-such")
		case n.Kind == "list":
			add("list:step-below-list", "pathological", p+"/"+n.Keys[0])
			add("list:empty-key", "pathological", p+"=")
			add("list:comma-key", "pathological", p+"=,")
		}
	}
	for _, l := range t.Leaf {
		n := f.DS.Node(l.P.SPath())
		if n == nil {
			continue
		}
		p := fx.URLPath(l.P)
		add(n.Kind+":key-on-leaf", "shape-mismatch", p+"=1")
		add(n.Kind+":step-below-leaf", "shape-mismatch", p+"/x")
		add(n.Kind+":step-below-leaf-twice", "shape-mismatch", p+"/"+n.SP[len(n.SP)-1])
		add(n.Kind+":trailing-slash", "pathological", p+"/")
	}
	for _, s := range []string{"", "/", "//", "?", "??", "=", ",", "..", ".", "../", "../..", "../../../x", "%", "%zz", "%2", "a%2Fb", "\x00", " ", "x=", "=x", "x==", "x=,,", "x=%", "x/=1",
		strings.Repeat("../", 300), strings.Repeat("x/", 300), strings.Repeat("=", 300), strings.Repeat("x=1,2,3/", 100), "x=" + strings.Repeat("1,", 300), "é/ü", "x?depth", "x?depth=1?depth=2", "x#frag", "http://host/x", ":x", "x:", "a:b:c", "*", "x/*"} {
		add("special", "pathological", s)
	}
	return
}

func names(f *fx.Fixture) (conts, lists, leaves []string) {
	for i := range f.DS {
		n := &f.DS[i]
		name := strings.Join(n.SP, "/")
		switch n.Kind {
		case "container":
			conts = append(conts, name)
		case "list":
			lists = append(lists, name)
		case "leaf", "leaflist":
			leaves = append(leaves, name)
		}
	}
	return
}

func queryCases(f *fx.Fixture, r *rand.Rand) (out []string) {
	conts, lists, leaves := names(f)
	all := append(append(append([]string{}, conts...), lists...), leaves...)
	pick := func(s []string) string {
		if len(s) == 0 {
			return "x"
		}
		return s[r.Intn(len(s))]
	}
	ints := []string{"", "0", "1", "2", "-1", "abc", "99999999999999999999", "1.5", " 1", "0x10", "+1", "1e3"}
	for _, k := range []string{"depth", "fc.max-node-count"} {
		for _, v := range ints {
			out = append(out, k+"="+v)
		}
		out = append(out, k, k+"=1&"+k+"=2")
	}
	for _, k := range []string{"fields", "fc.xfields"} {
		for _, v := range []string{"", "x", ";", "/", "a;b", "a/b", "a(b;c)", "a(", ")", "(", "a((b))", "a//b", "a;;b", "*", "a/../b", ";;;", "a;", ";a", "a/", "/a",
			strings.Repeat("(", 300), strings.Repeat("a/", 300), strings.Repeat("a;", 300), "%", "\x00"} {
			out = append(out, k+"="+v)
		}
		for i := 0; i < 6; i++ {
			a, b := pick(all), pick(all)
			out = append(out, k+"="+a, k+"="+a+";"+b, k+"="+a+"/"+localName(b), k+"="+a+"("+b+")", k+"="+a+"/", k+"="+a+";")
		}
	}
	for _, v := range []string{"", "!", "a!1", "!1-2", "1-2", "a!", "a!!", "a!1-2!3", "a/b!1-2", "a!-", "a!1-2-3", "a!a-b", "a!99999999999999999999", "a!-1", "a!5-2", "a!1-", "a!-5", "a!1.5", "a! 1"} {
		out = append(out, "fc.range="+v)
		if len(lists) > 0 {
			out = append(out, "fc.range="+strings.Replace(v, "a", pick(lists), 1))
		}
	}
	for _, v := range []string{"config", "nonconfig", "all", "bogus", "", "CONFIG"} {
		out = append(out, "content="+v)
	}
	for _, v := range []string{"trim", "report-all", "explicit", "report-all-tagged", "bogus", ""} {
		out = append(out, "with-defaults="+v)
	}
	for _, v := range []string{"%", "a=%zz", "&&&", "=", "==", ";", "depth;fields", "a=b=c", "depth=1;depth=2", "depth=1&fields=x&content=config&with-defaults=trim&fc.range=a!1-2&fc.max-node-count=5&where=x%3D1&filter=x%3D1",
		"where=", "filter=", "where", "filter", "unknown=1", "?", "#", "\x00=1", strings.Repeat("a=1&", 500)} {
		out = append(out, v)
	}
	// pairs
	n := len(out)
	for i := 0; i < 40; i++ {
		out = append(out, out[r.Intn(n)]+"&"+out[r.Intn(n)])
	}
	return
}

func xpathSeeds(f *fx.Fixture, t *abs.Tree, r *rand.Rand) (out []string) {
	lits := []string{"'x'", "1", "-1", "1.5", "''", "true", "'1'", "99999999999999999999", "x", "\"q\"", "0"}
	ops := []string{"=", "!=", "<", ">", "<=", ">="}
	_, _, leaves := names(f)
	conts, lists, _ := names(f)
	for _, l := range leaves {
		last := l[strings.LastIndexByte(l, '/')+1:]
		out = append(out, last+ops[r.Intn(len(ops))]+lits[r.Intn(len(lits))])
		out = append(out, l+ops[r.Intn(len(ops))]+lits[r.Intn(len(lits))])
		// every operator with a text and a number literal on every leaf (whatever its type)
		for _, op := range ops {
			out = append(out, l+op+"'x'", l+op+"1", l+op+lits[r.Intn(len(lits))])
		}
		out = append(out, "../"+last+"="+lits[r.Intn(len(lits))])
		out = append(out, last)
		out = append(out, last+"="+last)
	}
	for _, c := range append(conts, lists...) {
		out = append(out, c+"='x'", c, c+"/no-such=1", c+"!=1")
	}
	for _, l := range t.Leaf {
		if len(l.V) > 0 {
			out = append(out, l.P[len(l.P)-1].N+"='"+l.V[0]+"'", l.P[len(l.P)-1].N+"="+l.V[0])
		}
	}
	return
}

func xpathSpecials() []string {
	return []string{"", " ", "=", "'", "\"", "(", ")", "()", "a=", "=a", "a==b", "a='", "a=1 and", "and", "or", "not", "not(", "not()", "a and b", "a or b", "a=1 and b=2", "a=1 or b=2", "not(a=1)",
		"a[1]", "a[b=1]", "a/b/c=1", "/a=1", "//a=1", "../../../../../a=1", "..", ".", "./a=1", "a/..=1", "@a=1", "a::b=1", "a|b", "a+b=1", "a-b=1", "a*b=1", "a div b=1", "count(a)=1", "current()/a=1", "string(a)='x'",
		"1=1", "'a'='a'", "1", "'a'", "a=b=c", "a<b<c", "a=-1", "a=--1", "a=1e999", "a=.5", "a=5.", "a=1.2.3", "a=0x10", "$a=1", "a=$b", "a,b", "a;b", "a\\b", "a=1#", "\x00", "é=1", "a='é'",
		strings.Repeat("a/", 300) + "a=1", strings.Repeat("../", 300) + "a=1", strings.Repeat("(", 300), strings.Repeat("a=1 and ", 100) + "a=1", strings.Repeat("a=1 or ", 100) + "a=1", strings.Repeat("not(", 100) + "a=1" + strings.Repeat(")", 100),
		"a='" + strings.Repeat("x", 5000) + "'", strings.Repeat("a ", 200), strings.Repeat("'x' ", 100), strings.Repeat("1 ", 100), strings.Repeat("a=1 ", 70)}
}

func valueMenu() []map[string]any {
	v := func(g, s string) map[string]any { return map[string]any{"go": g, "v": s} }
	return []map[string]any{v("nil", ""), v("string", ""), v("string", "abc"), v("string", "1"), v("string", "-1"), v("string", "1.5"), v("string", "true"), v("string", "99999999999999999999"), v("string", "a b"), v("string", "\x00"), v("string", "1e3"), v("string", " 1"),
		v("bigstring", ""), v("int", "0"), v("int", "7"), v("int", "-7"), v("int", "300"), v("int", "70000"), v("int8", ""), v("int64", "9223372036854775807"), v("int64", "-9223372036854775808"), v("uint64", "18446744073709551615"), v("uint", ""),
		v("float64", "1.5"), v("float64", "nan"), v("float64", "inf"), v("float64", "-inf"), v("float64", "1e308"), v("float64", "-0"), v("float64", "7"), v("float32", ""), v("bool", "true"), v("bool", "false"),
		v("strings", "a b"), v("strings", "1 2"), v("emptystrings", ""), v("ints", ""), v("int64s", ""), v("floats", ""), v("bools", ""), v("anys", ""), v("emptyanys", ""), v("nilanys", ""), v("nested", ""),
		v("map", ""), v("mapif", ""), v("struct", ""), v("ptr", ""), v("nilptr", ""), v("chan", ""), v("func", ""), v("bytes", "abc"), v("rune", ""), v("jsonnumber", "7"), v("jsonnumber", "1.5"), v("jsonnumber", "abc"), v("jsonnumber", "99999999999999999999"), v("complex", ""), v("error", "e"),
		v("val.String", "x"), v("val.Int32", ""), v("val.StringList", "a b"), v("val.Bool", ""), v("val.Enum", "nope"), v("val.EnumList", "nope"), v("val.IdentRef", "nope"), v("val.NotEmpty", ""), v("val.Any", ""), v("val.Decimal64", "")}
}

// ---------------------------------------------------------------- plan

func planC13(tier string, seed int64) (*core.Plan, error) {
	r := rng(seed)
	every := tier == "thorough"
	nTrees := 2
	if every {
		nTrees = 6
	}
	fixtures := []string{"M0", "S0", "S1", "S2", "S7", "S8", "S6"}
	p := &core.Plan{Property: "C13", Tier: tier, Seed: seed, Level: "exploration", Isolated: true, CaseTimeout: 20 * time.Second,
		Models: []core.ModelRun{{TLC: core.TLCRun{Module: "RobustModel", Workers: 4},
			Description: "the robustness contract as a state machine (request of every shape, admitted outcomes, reread of the stored data): no reachable crash state, shape mismatches answered with an error, stored data readable after every answer"}},
		EvalMod:    "EvalRobust",
		Histogram:  func(r core.Rec) string { return fmt.Sprint(r["kind"], "/", r["shape"], "/", r["out"]) },
		Rule:       "fixtures M0 (model fixture), S0, S1, S2 (every built-in type), each with seeded stored trees on every store kind. JSON and XML edit sources (upsert / insert / update / replace at the root and at inner selections): every wrong shape at every member of a valid document (object / scalar / array / null where a container, list, leaf or leaf-list is declared, entries without their key, ...), every truncation at a token boundary and single-token deletion, duplication, substitution (thorough: whole pool). Find: key on a non-list, step below a leaf, key count mismatches, token mutations of valid paths, 38 special texts. Query strings: each parameter with numeric / structural garbage and pairs. XPath (where, filter): comparisons of every leaf with every literal kind, token mutations, 90 special texts (depth 300, 70+ tokens). SetValue: every leaf x 70 Go values of every kind. After every request the whole stored tree is read again. Each case in a worker process with a timeout.",
		NonTrivial: func(r core.Rec) bool { return r["shape"] != "valid" },
		Assumptions: []string{
			"the oracle is totality (result or error; never a crash or a hang), an error for the listed shape mismatches, and that the stored tree can be read completely afterwards",
			"Find answering (nil, nil) counts as an error answer (nothing was selected)",
			"only the shapes the statement names, and their direct analogues (array of scalars for a container, scalars as list entries, an object for a leaf), are required to be errors; null, empty arrays, scalar for leaf-list, unknown members only have to terminate",
		},
	}
	for _, fname := range fixtures {
		fname := fname
		f, err := fx.Load(fname)
		if err != nil {
			return nil, err
		}
		stores, _ := storesFor(fname)
		p.Stages = append(p.Stages, core.Stage{Name: fname, EvalMod: "EvalRobust", Cases: func(emit func(core.Case)) {
			gp := gen.Default
			gp.PLeaf, gp.PCont, gp.PList = 0.8, 0.8, 0.85
			g := &gen.G{DS: f.DS, R: r, P: gp}
			ops := []string{"upsert", "insert", "update", "replace"}
			// ReplaceFrom takes a source rooted at the parent of the selection: documents rooted
			// at the selection itself are given to the other three operations
			opFor := func(at abs.Path) string {
				if len(at) > 0 {
					return ops[r.Intn(3)]
				}
				return ops[r.Intn(4)]
			}
			// rows that hold nothing but their keys: every expression that steps through a container
			// of the row meets no data there - for every list and every leaf below it, whatever the seed
			for _, ct := range coverTrees(f, r) {
				stored := bareRows(f, ct)
				for i := range f.DS {
					ln := &f.DS[i]
					if ln.Kind != "list" {
						continue
					}
					var lp abs.Path
					for _, cp := range stored.Cont {
						if !cp.IsEntry() && strings.Join(cp.SPath(), "/") == strings.Join(ln.SP, "/") {
							lp = cp
							break
						}
					}
					if lp == nil {
						continue
					}
					for j := range f.DS {
						leaf := &f.DS[j]
						if (leaf.Kind != "leaf" && leaf.Kind != "leaflist") || len(leaf.SP) < len(ln.SP)+2 ||
							strings.Join(leaf.SP[:len(ln.SP)], "/") != strings.Join(ln.SP, "/") {
							continue
						}
						rel := strings.Join(leaf.SP[len(ln.SP):], "/")
						for k, x := range []string{rel, rel + "='u'", rel + ">1", rel + "!=''"} {
							c := core.Case{"kind": "req", "fixture": fname, "store": stores[(i+j+k)%len(stores)], "tree": stored, "at": lp,
								"req": "xpath", "shape": "pathological", "what": "bare-row-path", "op": []string{"where", "filter"}[k%2], "text": x}
							emit(c)
						}
					}
				}
			}
			for ti := 0; ti < nTrees; ti++ {
				t := g.Subtree(abs.Path{})
				stored := g.Subtree(abs.Path{})
				if ti%2 == 0 {
					stored = t
				} else {
					// a sparse store: most containers and lists the requests name hold no data
					sp := gen.Default
					sp.PLeaf, sp.PCont, sp.PList = 0.5, 0.25, 0.5
					stored = (&gen.G{DS: f.DS, R: r, P: sp}).Subtree(abs.Path{})
				}
				store := func() string { return stores[r.Intn(len(stores))] }
				base := func(req, shape, what string) core.Case {
					return core.Case{"kind": "req", "fixture": fname, "store": store(), "tree": stored, "at": abs.Path{}, "req": req, "shape": shape, "what": what}
				}
				// edit targets: root and a few inner containers / entries present in both trees
				ats := []abs.Path{{}}
				for _, c := range t.Cont {
					if stored.HasCont(c) && (c.IsEntry() || f.DS.Node(c.SPath()).Kind == "container") && r.Intn(3) == 0 && len(ats) < 3 {
						ats = append(ats, c)
					}
				}
				for _, at := range ats {
					// JSON
					text := fx.JSONDoc(f, t, at)
					doc := decodeJSON(text)
					c := base("json-edit", "valid", "valid")
					c["at"], c["op"], c["text"] = at, "upsert", text
					emit(c)
					for _, m := range jsonShapeMuts(f, doc, at.SPath()) {
						b, _ := json.Marshal(m.doc)
						c := base("json-edit", m.shape, m.what)
						c["at"], c["op"], c["text"] = at, opFor(at), string(b)
						emit(c)
					}
					muts := tokenMuts(text, jsonTok, jsonPool, r, every)
					if !every && len(muts) > 300 {
						r.Shuffle(len(muts), func(i, j int) { muts[i], muts[j] = muts[j], muts[i] })
						muts = muts[:300]
					}
					for _, m := range muts {
						c := base("json-edit", m[0], "token")
						c["at"], c["op"], c["text"] = at, opFor(at), m[1]
						emit(c)
					}
					// XML
					xtext := dxml.Render(f, t, at, nil)
					c = base("xml-edit", "valid", "valid")
					c["at"], c["op"], c["text"] = at, "upsert", xtext
					emit(c)
					if root := parseXML(xtext); root != nil {
						for _, m := range xmlShapeMuts(f, root, at.SPath()) {
							c := base("xml-edit", m.shape, m.what)
							c["at"], c["op"], c["text"] = at, opFor(at), m.doc.(string)
							emit(c)
						}
					}
					muts = tokenMuts(xtext, xmlTok, xmlPool, r, every)
					if !every && len(muts) > 300 {
						r.Shuffle(len(muts), func(i, j int) { muts[i], muts[j] = muts[j], muts[i] })
						muts = muts[:300]
					}
					for _, m := range muts {
						c := base("xml-edit", m[0], "token")
						c["at"], c["op"], c["text"] = at, opFor(at), m[1]
						emit(c)
					}
				}
				// Find
				for _, pc := range pathCases(f, stored) {
					c := base("find", pc[1], pc[0])
					c["text"] = pc[2]
					emit(c)
				}
				var valid []string
				for _, cp := range stored.Cont {
					valid = append(valid, fx.URLPath(cp))
				}
				for _, l := range stored.Leaf {
					valid = append(valid, fx.URLPath(l.P))
				}
				r.Shuffle(len(valid), func(i, j int) { valid[i], valid[j] = valid[j], valid[i] })
				if !every && len(valid) > 12 {
					valid = valid[:12]
				}
				for _, v := range valid {
					c := base("find", "valid", "valid")
					c["text"] = v
					emit(c)
					for _, m := range tokenMuts(v, pathTok, pathPool, r, every) {
						c := base("find", m[0], "token")
						c["text"] = m[1]
						emit(c)
					}
				}
				// query strings at the root and at an inner node
				qats := []abs.Path{{}}
				if len(stored.Cont) > 0 {
					qats = append(qats, stored.Cont[r.Intn(len(stored.Cont))])
				}
				for _, at := range qats {
					for _, q := range queryCases(f, r) {
						c := base("query", "pathological", "param:"+strings.SplitN(q, "=", 2)[0])
						c["at"], c["text"] = at, q
						emit(c)
					}
					seeds := xpathSeeds(f, stored, r)
					for _, x := range append(seeds, xpathSpecials()...) {
						for _, param := range []string{"where", "filter"} {
							c := base("xpath", "pathological", "expr")
							c["at"], c["op"], c["text"] = at, param, x
							emit(c)
						}
					}
					r.Shuffle(len(seeds), func(i, j int) { seeds[i], seeds[j] = seeds[j], seeds[i] })
					k := 6
					if every {
						k = 25
					}
					if len(seeds) > k {
						seeds = seeds[:k]
					}
					for _, x := range seeds {
						for _, m := range tokenMuts(x, xpathTok, xpathPool, r, every) {
							c := base("xpath", m[0], "token")
							c["at"], c["op"], c["text"] = at, []string{"where", "filter"}[r.Intn(2)], m[1]
							emit(c)
						}
					}
				}
				// where / filter read through a list: paths from the row through its containers (present
				// in some rows, absent in others) to their leaves
				for i := range f.DS {
					ln := &f.DS[i]
					if ln.Kind != "list" {
						continue
					}
					var lp abs.Path
					for _, cp := range stored.Cont {
						if !cp.IsEntry() && strings.Join(cp.SPath(), "/") == strings.Join(ln.SP, "/") {
							lp = cp
							break
						}
					}
					if lp == nil {
						continue
					}
					for j := range f.DS {
						leaf := &f.DS[j]
						if (leaf.Kind != "leaf" && leaf.Kind != "leaflist") || len(leaf.SP) < len(ln.SP)+1 ||
							strings.Join(leaf.SP[:len(ln.SP)], "/") != strings.Join(ln.SP, "/") {
							continue
						}
						rel := strings.Join(leaf.SP[len(ln.SP):], "/")
						exprs := []string{rel}
						for _, op := range []string{"=", "!=", "<", ">", "<=", ">="} {
							for _, lit := range []string{"'u'", "1", "'b0'", "true", "1.5", "''", "99999999999999999999"} {
								exprs = append(exprs, rel+op+lit)
							}
						}
						if !every && len(exprs) > 14 {
							r.Shuffle(len(exprs), func(i, j int) { exprs[i], exprs[j] = exprs[j], exprs[i] })
							exprs = exprs[:14]
						}
						for _, x := range exprs {
							for _, param := range []string{"where", "filter"} {
								c := base("xpath", "pathological", "row-path")
								c["at"], c["op"], c["text"] = lp, param, x
								emit(c)
							}
						}
					}
				}
				// SetValue on every leaf whose parent exists in the stored tree
				if ti < 2 {
					seen := map[string]bool{}
					for i := range f.DS {
						n := &f.DS[i]
						if n.Kind != "leaf" && n.Kind != "leaflist" {
							continue
						}
						// a data path for the parent
						var parent abs.Path
						found := len(n.SP) == 1
						for _, cp := range stored.Cont {
							if strings.Join(cp.SPath(), "/") == strings.Join(n.SP[:len(n.SP)-1], "/") && (cp.IsEntry() || f.DS.Node(cp.SPath()).Kind == "container") {
								parent, found = cp, true
								break
							}
						}
						if !found || seen[strings.Join(n.SP, "/")] {
							continue
						}
						seen[strings.Join(n.SP, "/")] = true
						for _, v := range valueMenu() {
							c := base("setvalue", "pathological", fmt.Sprintf("%s<-%s", n.Type, v["go"]))
							c["at"], c["text"], c["value"] = parent, n.SP[len(n.SP)-1], v
							emit(c)
						}
					}
				}
			}
		}})
	}
	return p, nil
}
