package plans

import (
	"encoding/json"
	"fmt"
	"math/rand"
	"os"
	"time"

	"verif/internal/abs"
	"verif/internal/core"
	_ "verif/internal/dedit"
	"verif/internal/fx"
	"verif/internal/gen"
)

func init() {
	Registry["C03"] = planC03
}

type editOp struct {
	K   string    `json:"k"`
	At  abs.Path  `json:"at"`
	S   *abs.Tree `json:"s"`
	Src string    `json:"src"`
}

// randomEditCases: seeded single-step edits: random pre tree, random entry
// point among the existing nodes, random source subtree.
func randomEditCases(f *fx.Fixture, r *rand.Rand, n int, kinds []string, stores, srcs []string, emit func(core.Case)) {
	g := &gen.G{DS: f.DS, R: r, P: gen.Default}
	for i := 0; i < n; i++ {
		pre := g.Subtree(abs.Path{})
		nodes := gen.Nodes(pre)
		at := nodes[r.Intn(len(nodes))]
		s := g.Subtree(at)
		k := kinds[r.Intn(len(kinds))]
		store := stores[i%len(stores)]
		src := srcs[r.Intn(len(srcs))]
		emit(core.Case{"kind": "edit", "fixture": f.Name, "store": store, "pre": pre,
			"ops": []editOp{{K: k, At: at, S: s, Src: src}}})
	}
}

func planC03(tier string, seed int64) (*core.Plan, error) {
	f, err := fx.Load("S0")
	if err != nil {
		return nil, err
	}
	if err := f.CheckDS(); err != nil {
		return nil, err
	}
	r := rng(seed)
	n := 1500
	if tier == "thorough" {
		n = 30000
	}
	mn := 2
	if tier == "thorough" {
		mn = 3
	}
	model, err := editModelRun(mn, 30)
	if err != nil {
		return nil, err
	}
	p := &core.Plan{Property: "C03", Tier: tier, Seed: seed, Level: "model_checking",
		Models:  []core.ModelRun{model},
		EvalMod: "EvalEdit", EvalEnv: map[string]string{"SCHEMA": f.DSFile},
		Rule:    "seeded random (pre tree, entry point, source subtree, strategy) on fixture S0 for every store kind x source kind; non-trivial: the source has at least one node and the operation changes the target or fails",
		NonTrivial: func(r core.Rec) bool {
			return canonJSON(r["pre"]) != canonJSON(r["post"]) || !(r["res"].(core.Rec)["ok"].(bool))
		},
	}
	p.Cases = func(emit func(core.Case)) {
		randomEditCases(f, r, n, []string{"upsert", "insert", "update"}, fx.StoreNames, []string{"json", "rmap", "nmap", "nslice"}, emit)
	}
	return p, nil
}

// editModelRun prepares the exhaustive store model on fixture M0: it writes the
// operation alphabet (every source subtree up to maxNodes nodes at every entry
// point x strategy, delete, replace) as the JSON constant the model reads.
func editModelRun(maxNodes int, timeoutMin int) (core.ModelRun, error) {
	f, err := fx.Load("M0")
	if err != nil {
		return core.ModelRun{}, err
	}
	if err := f.CheckDS(); err != nil {
		return core.ModelRun{}, err
	}
	e := &gen.Enum{DS: f.DS, Values: map[string][]string{"string": {"u"}, "int32": {"1"}}, Keys: []string{"k1", "k2"}}
	var ops []editOp
	for _, at := range e.AllPaths() {
		if len(at) > 0 {
			ops = append(ops, editOp{K: "delete", At: at, S: abs.NewTree()})
		}
		for _, s := range e.Subtrees(at, maxNodes) {
			for _, k := range []string{"upsert", "insert", "update"} {
				ops = append(ops, editOp{K: k, At: at, S: s})
			}
			if len(at) > 0 {
				kind := f.DS.Node(at.SPath()).Kind
				if at.IsEntry() || kind == "container" {
					ops = append(ops, editOp{K: "replace", At: at, S: s})
				}
			}
		}
	}
	tmp, err := os.CreateTemp("", "vops-*.json")
	if err != nil {
		return core.ModelRun{}, err
	}
	b, _ := json.Marshal(ops)
	tmp.Write(b)
	tmp.Close()
	core.TempFiles = append(core.TempFiles, tmp.Name())
	return core.ModelRun{
		TLC: core.TLCRun{Module: "FcEditModel", Workers: 16, HeapGB: 12, Timeout: time.Duration(timeoutMin) * time.Minute,
			Env: map[string]string{"SCHEMA": f.DSFile, "OPS": tmp.Name()}},
		MustCover:   []string{"DoEdit", "DoDelete", "DoReplace"},
		Description: fmt.Sprintf("store state machine on fixture M0 (keys k1,k2; one value per leaf), %d operations (all source subtrees <= %d nodes at every entry point x upsert/insert/update/replace, delete); invariants WellFormed/KeysUnique/OneCase; per-transition assertions (outcome predicate admits canonical outcome, idempotence, frame, update creates nothing, replace leaves exactly the source)", len(ops), maxNodes),
	}, nil
}
