package plans

import (
	"encoding/json"
	"fmt"
	"math/rand"
	"os"
	"time"

	"verif/internal/abs"
	"verif/internal/core"
	_ "verif/internal/dedit"
	"verif/internal/fx"
	"verif/internal/gen"
)

func init() {
	Registry["C03"] = planC03
	Registry["C09"] = planC09
	Registry["C18"] = planC18
}

// planC09: edits that alternate between the cases of choices (several per container,
// nested, shorthand, inside list entries); every observed post-state is judged against
// the merge with case switching and against OneCase.
func planC09(tier string, seed int64) (*core.Plan, error) {
	r := rng(seed)
	n, h, mn := 600, 240, 2
	if tier == "thorough" {
		n, h, mn = 8000, 4000, 3
	}
	model, err := editModelRun(mn, 60)
	if err != nil {
		return nil, err
	}
	p := &core.Plan{Property: "C09", Tier: tier, Seed: seed, Level: "model_checking",
		Models:      []core.ModelRun{model},
		Rule:        "seeded single edits and histories (6-13 steps) on S0 and S1 whose pre-state and source each select a random case of every choice (two choices per container, choice nested in a case, shorthand cases holding a leaf / container / list, choice inside list entries), all strategies, every store kind that implements case detection x source kind (JSON text, each store); non-trivial: source and target select different cases of some choice",
		NonTrivial:  func(r core.Rec) bool { return canonJSON(r["pre"]) != canonJSON(r["post"]) },
		Assumptions: []string{"the legacy struct-backed Reflect node implements no Choose and is not a subject of C09"},
	}
	kinds := []string{"upsert", "upsert", "upsert", "insert", "update"}
	for _, fname := range []string{"S0", "S1", "S7"} {
		f, err := fx.Load(fname)
		if err != nil {
			return nil, err
		}
		if err := f.CheckDS(); err != nil {
			return nil, err
		}
		stores, srcs := storesFor(fname)
		p.Stages = append(p.Stages, core.Stage{Name: fname, EvalMod: "EvalEdit", EvalEnv: map[string]string{"SCHEMA": f.DSFile},
			Cases: func(emit func(core.Case)) {
				g := gen.Default
				g.PLeaf, g.PCont, g.PList = 0.7, 0.7, 0.5
				coverEditCases(f, r, []string{"upsert", "insert"}, stores, srcs, emit)
				choiceCases(f, r, n/2, h/2, kinds, stores, srcs, g, emit)
			}})
	}
	return p, nil
}

func choiceCases(f *fx.Fixture, r *rand.Rand, n, h int, kinds, stores, srcs []string, gp gen.Params, emit func(core.Case)) {
	g := &gen.G{DS: f.DS, R: r, P: gp}
	for i := 0; i < n; i++ {
		pre := g.Subtree(abs.Path{})
		nodes := gen.Nodes(pre)
		at := nodes[r.Intn(len(nodes))]
		emit(core.Case{"kind": "edit", "fixture": f.Name, "store": stores[i%len(stores)], "pre": pre,
			"ops": []editOp{{K: kinds[r.Intn(len(kinds))], At: at, S: g.Subtree(at), Src: srcs[r.Intn(len(srcs))], Into: r.Intn(4) == 0, Dup: r.Intn(5) == 0}}})
	}
	for i := 0; i < h; i++ {
		pre := g.Subtree(abs.Path{})
		var ops []editOp
		steps := 6 + r.Intn(8)
		for s := 0; s < steps; s++ {
			// containers that hold a choice: root and every container of the initial tree
			nodes := gen.Nodes(pre)
			at := nodes[r.Intn(len(nodes))]
			if r.Intn(2) == 0 {
				at = abs.Path{}
			}
			ops = append(ops, editOp{K: kinds[r.Intn(len(kinds))], At: at, S: g.Subtree(at), Src: srcs[r.Intn(len(srcs))], Into: r.Intn(4) == 0, Dup: r.Intn(6) == 0})
		}
		emit(core.Case{"kind": "edit", "fixture": f.Name, "store": stores[i%len(stores)], "pre": pre, "ops": ops, "history": true})
	}
}

// planC18: delete / replace / insert / upsert histories addressed through list keys;
// after every step Find is asked for every remaining node and for the removed one.
func planC18(tier string, seed int64) (*core.Plan, error) {
	r := rng(seed)
	h, mn := 360, 2
	if tier == "thorough" {
		h, mn = 6000, 3
	}
	model, err := editModelRun(mn, 60)
	if err != nil {
		return nil, err
	}
	p := &core.Plan{Property: "C18", Tier: tier, Seed: seed, Level: "model_checking",
		Models: []core.ModelRun{model},
		Rule:   "seeded histories (5-12 steps) of delete / replace / insert / upsert on S0, S1, P0 addressed at every kind of deletable node (container, whole list, list entry: first, middle, last, only; nested lists; delete then re-insert of the same key), every store kind x source kind; after each step Find is asked for every container/list/entry the store holds and for the deleted node; non-trivial: the step changes the store",
		NonTrivial: func(r core.Rec) bool {
			if r["chk"] != "edit" {
				return false
			}
			return canonJSON(r["pre"]) != canonJSON(r["post"])
		},
	}
	for _, fname := range []string{"S0", "S1", "P0", "S7"} {
		f, err := fx.Load(fname)
		if err != nil {
			return nil, err
		}
		if err := f.CheckDS(); err != nil {
			return nil, err
		}
		stores, srcs := storesFor(fname)
		p.Stages = append(p.Stages, core.Stage{Name: fname, EvalMod: "EvalEdit", EvalEnv: map[string]string{"SCHEMA": f.DSFile},
			Cases: func(emit func(core.Case)) {
				deleteHistories(f, r, h/3, stores, srcs, emit)
				freshListCases(f, r, 4*len(stores), stores, emit)
			}})
	}
	return p, nil
}

// freshListCases: a payload that names one list entry twice, written where the target holds no
// such list yet (the list node itself is created by the edit) - upsert must leave one entry,
// insert must refuse
func freshListCases(f *fx.Fixture, r *rand.Rand, n int, stores []string, emit func(core.Case)) {
	gp := gen.Default
	gp.PList, gp.PCont, gp.MaxEntries = 1.0, 0.8, 3
	g := &gen.G{DS: f.DS, R: r, P: gp}
	for i := 0; i < n; i++ {
		s := g.Subtree(abs.Path{})
		if len(s.Ord) == 0 {
			continue
		}
		for _, k := range []string{"upsert", "insert"} {
			emit(core.Case{"kind": "edit", "fixture": f.Name, "store": stores[i%len(stores)], "pre": abs.NewTree(),
				"ops": []editOp{{K: k, At: abs.Path{}, S: s, Src: "json", Dup: true, Into: i%5 == 4}}, "verifyfind": true})
		}
	}
}

// deleteHistories tracks the expected tree only to choose meaningful entry points (the
// verdict comes from the specification, evaluated on the observed states).
func deleteHistories(f *fx.Fixture, r *rand.Rand, n int, stores, srcs []string, emit func(core.Case)) {
	gp := gen.Default
	gp.PList, gp.PCont, gp.MaxEntries = 0.9, 0.7, 4
	g := &gen.G{DS: f.DS, R: r, P: gp}
	for i := 0; i < n; i++ {
		pre := g.Subtree(abs.Path{})
		var ops []editOp
		steps := 5 + r.Intn(8)
		var lastDeleted abs.Path
		for s := 0; s < steps; s++ {
			nodes := gen.Nodes(pre)
			at := nodes[r.Intn(len(nodes))]
			switch x := r.Intn(10); {
			case x < 4 && len(at) > 0:
				ops = append(ops, editOp{K: "delete", At: at, S: abs.NewTree()})
				lastDeleted = at
			case x < 6 && len(at) > 0 && (at.IsEntry() || f.DS.Node(at.SPath()).Kind == "container"):
				s := g.Subtree(at)
				// now and then the payload also names a sibling container the store holds already
				if !at.IsEntry() && r.Intn(3) == 0 {
					for _, c := range pre.Cont {
						if len(c) == len(at) && !c.IsEntry() && c.Key() != at.Key() && c[:len(c)-1].Key() == at[:len(at)-1].Key() &&
							f.DS.Node(c.SPath()).Kind == "container" {
							sib := g.Subtree(c)
							s.Leaf = append(s.Leaf, sib.Leaf...)
							s.Cont = append(s.Cont, sib.Cont...)
							s.Ord = append(s.Ord, sib.Ord...)
							s.Canon()
							break
						}
					}
				}
				ops = append(ops, editOp{K: "replace", At: at, S: s, Src: srcs[r.Intn(len(srcs))]})
			case x < 8 && lastDeleted != nil && lastDeleted.IsEntry():
				// re-insert the entry that was deleted, into its list
				lp := lastDeleted[:len(lastDeleted)-1]
				src := g.Subtree(lastDeleted)
				src.Cont = append(src.Cont, append(abs.Path{}, lp...))
				src.Ord = append(src.Ord, abs.OrdItem{P: append(abs.Path{}, lp...), Keys: [][]string{lastDeleted[len(lastDeleted)-1].K}})
				ops = append(ops, editOp{K: "insert", At: append(abs.Path{}, lp...), S: src.Canon(), Src: srcs[r.Intn(len(srcs))]})
				lastDeleted = nil
			default:
				k := []string{"upsert", "insert"}[r.Intn(2)]
				ops = append(ops, editOp{K: k, At: at, S: g.Subtree(at), Src: srcs[r.Intn(len(srcs))]})
			}
		}
		emit(core.Case{"kind": "edit", "fixture": f.Name, "store": stores[i%len(stores)], "pre": pre, "ops": ops, "history": true, "verifyfind": true})
	}
}

type editOp struct {
	K    string    `json:"k"`
	At   abs.Path  `json:"at"`
	S    *abs.Tree `json:"s"`
	Src  string    `json:"src"`
	Into bool      `json:"into"`
	Dup  bool      `json:"dup"`
}

// coverEditCases: every schema node is written at least once by every strategy on every kind of
// store: the covering trees (coverTrees) are written into an empty store and over one another
func coverEditCases(f *fx.Fixture, r *rand.Rand, kinds []string, stores, srcs []string, emit func(core.Case)) {
	trees := coverTrees(f, r)
	seen := map[string]bool{}
	var uniq []string
	for _, k := range kinds {
		if !seen[k] {
			seen[k] = true
			uniq = append(uniq, k)
		}
	}
	kinds = uniq
	for i, t := range trees {
		for k, store := range stores {
			src := srcs[(i+k)%len(srcs)]
			for _, kind := range kinds {
				pre := abs.NewTree()
				if kind == "update" {
					pre = t // update what exists
				}
				emit(core.Case{"kind": "edit", "fixture": f.Name, "store": store, "pre": pre,
					"ops": []editOp{{K: kind, At: abs.Path{}, S: t, Src: src, Into: (i+k)%4 == 3}}})
			}
			// over another covering tree: cases of choices switch, lists merge
			other := trees[(i+1)%len(trees)]
			emit(core.Case{"kind": "edit", "fixture": f.Name, "store": store, "pre": other,
				"ops": []editOp{{K: "upsert", At: abs.Path{}, S: t, Src: src, Into: (i+k)%4 == 1}}})
		}
	}
}

// randomEditCases: seeded single-step edits: random pre tree, random entry
// point among the existing nodes, random source subtree.
func randomEditCases(f *fx.Fixture, r *rand.Rand, n int, kinds []string, stores, srcs []string, emit func(core.Case)) {
	g := &gen.G{DS: f.DS, R: r, P: gen.Default}
	for i := 0; i < n; i++ {
		pre := g.Subtree(abs.Path{})
		nodes := gen.Nodes(pre)
		at := nodes[r.Intn(len(nodes))]
		s := g.Subtree(at)
		k := kinds[r.Intn(len(kinds))]
		store := stores[i%len(stores)]
		src := srcs[r.Intn(len(srcs))]
		emit(core.Case{"kind": "edit", "fixture": f.Name, "store": store, "pre": pre,
			"ops": []editOp{{K: k, At: at, S: s, Src: src, Into: r.Intn(4) == 0, Dup: r.Intn(5) == 0}}})
	}
}

var allSrcs = []string{"json", "rmap", "nmap", "nslice", "nstruct"}

// storesFor: the legacy struct-backed Reflect node (rstruct) implements no case
// detection and cannot represent an unset int leaf; it is bound on the choice-free
// fixture P0 only.
func storesFor(fname string) (stores, srcs []string) {
	if fname == "P0" {
		return fx.StoreNames, append(append([]string{}, allSrcs...), "rstruct")
	}
	if fname == "S2" || fname == "S3" || fname == "S4" || fname == "S5" || fname == "S6" || fname == "S7" || fname == "S8" {
		// typed values: map-backed stores only (no struct types are declared for S2)
		return []string{"rmap", "nmap", "rslice", "nslice"}, []string{"json", "rmap", "nmap", "nslice"}
	}
	for _, s := range fx.StoreNames {
		if s != "rstruct" {
			stores = append(stores, s)
		}
	}
	return stores, allSrcs
}

func editStage(fname string, r *rand.Rand, n int, kinds []string, hist int) (core.Stage, error) {
	f, err := fx.Load(fname)
	if err != nil {
		return core.Stage{}, err
	}
	if err := f.CheckDS(); err != nil {
		return core.Stage{}, err
	}
	return core.Stage{Name: fname, EvalMod: "EvalEdit", EvalEnv: map[string]string{"SCHEMA": f.DSFile},
		Cases: func(emit func(core.Case)) {
			stores, srcs := storesFor(fname)
			coverEditCases(f, r, kinds, stores, srcs, emit)
			randomEditCases(f, r, n, kinds, stores, srcs, emit)
			randomHistories(f, r, hist, kinds, stores, srcs, emit)
		}}, nil
}

// randomHistories: sequences of edits on one live store; each step's pre-state is the
// observed post-state of the previous step.
func randomHistories(f *fx.Fixture, r *rand.Rand, n int, kinds []string, stores, srcs []string, emit func(core.Case)) {
	g := &gen.G{DS: f.DS, R: r, P: gen.Default}
	for i := 0; i < n; i++ {
		pre := g.Subtree(abs.Path{})
		cur := pre
		var ops []editOp
		steps := 4 + r.Intn(8)
		for s := 0; s < steps; s++ {
			// entry points are chosen among the nodes of the initial tree and the roots of
			// earlier sources; a stale entry point ends the history (harness-find-failed
			// is not emitted: the executor stops quietly)
			nodes := gen.Nodes(cur)
			at := nodes[r.Intn(len(nodes))]
			src := g.Subtree(at)
			k := kinds[r.Intn(len(kinds))]
			ops = append(ops, editOp{K: k, At: at, S: src, Src: srcs[r.Intn(len(srcs))], Into: r.Intn(4) == 0, Dup: r.Intn(6) == 0})
			if k == "upsert" {
				cur = src // later entry points may come from what was just written
				if len(at) > 0 {
					cur = pre
				}
			}
		}
		emit(core.Case{"kind": "edit", "fixture": f.Name, "store": stores[i%len(stores)], "pre": pre, "ops": ops, "history": true})
	}
}

func planC03(tier string, seed int64) (*core.Plan, error) {
	r := rng(seed)
	n, h, mn := 1200, 150, 2
	if tier == "thorough" {
		n, h, mn = 20000, 3000, 3
	}
	model, err := editModelRun(mn, 60)
	if err != nil {
		return nil, err
	}
	p := &core.Plan{Property: "C03", Tier: tier, Seed: seed, Level: "model_checking",
		Models: []core.ModelRun{model},
		Rule:   "seeded random (pre tree, entry point, source subtree, strategy upsert/insert/update) single steps and histories of 4-11 steps on fixtures S0 and S1 (compound keys, nested lists, nested/shorthand choices) for every store kind (legacy Reflect and nodeutil.Node over maps, slices of maps, structs) x source kind (JSON text, and each store kind); non-trivial: the operation changes the target or fails",
		NonTrivial: func(r core.Rec) bool {
			return canonJSON(r["pre"]) != canonJSON(r["post"]) || !resOK(r)
		},
		Assumptions: []string{"stores are built and read back directly (Go maps/structs), not through the library", "fixtures compile to the committed abstract schemas spec/S0.json, spec/S1.json, spec/M0.json (checked on every run)", "errors classified with errors.Is only"},
	}
	kinds := []string{"upsert", "insert", "update"}
	for _, fname := range []string{"S0", "S1", "P0", "S2", "S7"} {
		st, err := editStage(fname, r, n/4, kinds, h/4)
		if err != nil {
			return nil, err
		}
		p.Stages = append(p.Stages, st)
	}
	return p, nil
}

// editModelRun prepares the exhaustive store model on fixture M0: it writes the
// operation alphabet (every source subtree up to maxNodes nodes at every entry
// point x strategy, delete, replace) as the JSON constant the model reads.
func editModelRun(maxNodes int, timeoutMin int) (core.ModelRun, error) {
	return storeModelRun("FcEditModel", maxNodes, timeoutMin)
}

// storeModelRun runs a model that extends the store state machine.
func storeModelRun(module string, maxNodes int, timeoutMin int) (core.ModelRun, error) {
	f, err := fx.Load("M0")
	if err != nil {
		return core.ModelRun{}, err
	}
	if err := f.CheckDS(); err != nil {
		return core.ModelRun{}, err
	}
	e := &gen.Enum{DS: f.DS, Values: map[string][]string{"string": {"u"}, "int32": {"1"}}, Keys: []string{"k1", "k2"}}
	var ops []editOp
	for _, at := range e.AllPaths() {
		if len(at) > 0 {
			ops = append(ops, editOp{K: "delete", At: at, S: abs.NewTree()})
		}
		for _, s := range e.Subtrees(at, maxNodes) {
			for _, k := range []string{"upsert", "insert", "update"} {
				ops = append(ops, editOp{K: k, At: at, S: s})
			}
			if len(at) > 0 {
				kind := f.DS.Node(at.SPath()).Kind
				if at.IsEntry() || kind == "container" {
					ops = append(ops, editOp{K: "replace", At: at, S: s})
				}
			}
		}
	}
	tmp, err := os.CreateTemp("", "vops-*.json")
	if err != nil {
		return core.ModelRun{}, err
	}
	b, _ := json.Marshal(ops)
	tmp.Write(b)
	tmp.Close()
	core.TempFiles = append(core.TempFiles, tmp.Name())
	return core.ModelRun{
		TLC: core.TLCRun{Module: module, Workers: 16, HeapGB: 12, Timeout: time.Duration(timeoutMin) * time.Minute,
			Env: map[string]string{"SCHEMA": f.DSFile, "OPS": tmp.Name()}},
		MustCover:   []string{"DoEdit", "DoDelete", "DoReplace"},
		Description: fmt.Sprintf("store state machine on fixture M0 (keys k1,k2; one value per leaf), %d operations (all source subtrees <= %d nodes at every entry point x upsert/insert/update/replace, delete); invariants WellFormed/KeysUnique/OneCase; per-transition assertions (outcome predicate admits canonical outcome, idempotence, frame, update creates nothing, replace leaves exactly the source)", len(ops), maxNodes),
	}, nil
}

// resOK: the operation of an edit record succeeded (records of other kinds - skips, crashes - count as not ok)
func resOK(r core.Rec) bool {
	res, _ := r["res"].(core.Rec)
	ok, _ := res["ok"].(bool)
	return ok
}
