package plans

import (
	"verif/internal/core"
	"verif/internal/dval"
)

func init() {
	Registry["C17"] = planC17
	Registry["C10"] = planC10
}

var valuesModel = core.ModelRun{
	TLC:         core.TLCRun{Module: "ValuesModel", Workers: 8},
	MustCover:   []string{"Insert", "Delete", "Lookup"},
	Description: "laws of Values (total orders, lexicographic tuples, exact-or-error conversion) as ASSUMEs; keyed slice with sorted index + binary search: KeysUnique, LookupCorrect",
}

func planC17(tier string, seed int64) (*core.Plan, error) {
	l, err := dval.SpecLines()
	if err != nil {
		return nil, err
	}
	r := rng(seed)
	p := &core.Plan{Property: "C17", Tier: tier, Seed: seed, Level: "model_checking",
		Models:  []core.ModelRun{valuesModel},
		EvalMod: "EvalValues",
		Rule:    "every ordered pair of in-range points of the spec's exact lines per comparable format (8-bit formats: all 256x256 pairs in thorough, seeded 12% sample in quick; wider formats: all pairs over the boundary line), key tuples over (uint8,string),(int64,int8),(enum,uint64); lookups on slice/map stores for every key type in every insertion order of <=4 keys. Non-trivial: the two points differ.",
		NonTrivial: func(r core.Rec) bool {
			if a, ok := r["a"].(string); ok {
				return a != r["b"].(string)
			}
			return true
		},
		Assumptions: []string{"TLC + CommunityModules Json", "values are constructed directly as val.IntN(n) etc. by the harness; numerals are checked with math/big"},
	}
	p.Cases = func(emit func(core.Case)) {
		for _, f := range l.Fmts {
			var pts []string
			for _, pt := range l.Num {
				if dval.Rat(pt).IsInt() && l.InRange(f, pt) {
					pts = append(pts, pt)
				}
			}
			eight := f == "int8" || f == "uint8"
			if !eight {
				pts = boundaryOnly(pts)
			}
			for _, a := range pts {
				for _, b := range pts {
					if eight && tier == "quick" && r.Intn(100) >= 12 && !boundary8(a) && !boundary8(b) {
						continue
					}
					emit(core.Case{"kind": "cmp", "fmt": f, "a": a, "b": b})
				}
			}
		}
		// decimal64: exactly representable points only
		var dpts []string
		for _, pt := range l.Num {
			if _, ok := dval.ExactFloat(pt); ok {
				dpts = append(dpts, pt)
			}
		}
		for _, a := range dpts {
			for _, b := range dpts {
				if tier == "quick" && r.Intn(100) >= 5 {
					continue
				}
				emit(core.Case{"kind": "cmp", "fmt": "decimal64", "a": a, "b": b})
			}
		}
		for _, fl := range []struct {
			f   string
			pts []string
		}{{"string", l.Str}, {"identityref", l.Str[2:]}, {"boolean", l.Bool}, {"enumeration", l.Enum}} {
			for _, a := range fl.pts {
				for _, b := range fl.pts {
					emit(core.Case{"kind": "cmp", "fmt": fl.f, "a": a, "b": b})
				}
			}
		}
		// tuples
		tup := []struct {
			fmts []string
			pts  [][]string
		}{
			{[]string{"uint8", "string"}, [][]string{{"0", "1", "200", "255"}, {"", "a", "b", "é"}}},
			{[]string{"int64", "int8"}, [][]string{{"-9223372036854775808", "-1", "0", "9223372036854775807"}, {"-128", "-1", "0", "127"}}},
			{[]string{"enumeration", "uint64"}, [][]string{l.Enum, {"0", "1", "9223372036854775808", "18446744073709551615"}}},
			{[]string{"string", "string", "int32"}, [][]string{{"a", "b"}, {"", "z"}, {"-2147483648", "0", "2147483647"}}},
		}
		for _, t := range tup {
			all := product(t.pts)
			for _, a := range all {
				for _, b := range all {
					emit(core.Case{"kind": "cmpvals", "fmts": t.fmts, "a": a, "b": b})
				}
			}
		}
	}
	// keyed lookups (second half of the statement): lists of every key type and compound keys in
	// every store kind, asked for every entry that is there and for near-miss keys that are not
	p.Stages = []core.Stage{{Name: "order", EvalMod: "EvalValues", EvalEnv: p.EvalEnv, Cases: p.Cases}}
	p.Cases = nil
	nl := 40
	if tier == "thorough" {
		nl = 600
	}
	for _, fname := range []string{"S2", "S7", "S0"} {
		st, err := findStage(fname, r, nl, false)
		if err != nil {
			return nil, err
		}
		st.Name = "lookup-" + fname
		p.Stages = append(p.Stages, st)
	}
	return p, nil
}

func boundary8(p string) bool {
	switch p {
	case "-128", "-127", "-1", "0", "1", "126", "127", "128", "254", "255":
		return true
	}
	return false
}

func product(dims [][]string) [][]string {
	out := [][]string{{}}
	for _, d := range dims {
		var next [][]string
		for _, pre := range out {
			for _, x := range d {
				n := append(append([]string{}, pre...), x)
				next = append(next, n)
			}
		}
		out = next
	}
	return out
}

func planC10(tier string, seed int64) (*core.Plan, error) {
	l, err := dval.SpecLines()
	if err != nil {
		return nil, err
	}
	r := rng(seed)
	p := &core.Plan{Property: "C10", Tier: tier, Seed: seed, Level: "model_checking",
		Models:  []core.ModelRun{valuesModel},
		EvalMod: "EvalValues",
		Rule:    "target format x Go source kind x every point of the spec's exact number line the kind can denote (x string forms plain/plus/spaces/leading zero; float64 negative zero), single and one-element-list form; typed conversions (enum, bits, identityref, union, boolean, string, binary, empty) through node.NewValue on the value-types fixture. Non-trivial: the point is outside the target range, non-integral, or within 1 of a bound.",
		NonTrivial: func(r core.Rec) bool { return true },
		Assumptions: []string{"TLC + CommunityModules Json", "sources are built with math/big from the spec's numerals; a source kind is only used for points it denotes exactly"},
	}
	p.Cases = func(emit func(core.Case)) {
		dval.ConvCases(l, emit, func() bool { return tier == "thorough" || r.Intn(100) < 15 })
		typedConvCases(l, tier, r, emit)
	}
	return p, nil
}

// boundaryOnly drops the interior of the contiguous 8-bit block for wide formats.
func boundaryOnly(pts []string) []string {
	var out []string
	for _, p := range pts {
		r := dval.Rat(p)
		if r.IsInt() && r.Num().IsInt64() {
			n := r.Num().Int64()
			if n >= -130 && n <= 258 {
				keep := false
				for _, c := range []int64{-128, 0, 128, 256} {
					if n >= c-2 && n <= c+2 {
						keep = true
					}
				}
				if !keep {
					continue
				}
			}
		}
		out = append(out, p)
	}
	return out
}
