// Package abs holds the abstract encodings shared with the TLA+ specifications
// (spec/FcTree.tla): data paths, flat data trees, data schemas.
package abs

import (
	"encoding/json"
	"sort"
	"strings"
)

type Step struct {
	N string   `json:"n"`
	K []string `json:"k"`
}

type Path []Step

type LeafItem struct {
	P Path     `json:"p"`
	V []string `json:"v"`
}

type OrdItem struct {
	P    Path       `json:"p"`
	Keys [][]string `json:"keys"`
	U    bool       `json:"u"` // unordered: the list is held in a Go map (observed trees only)
}

type Tree struct {
	Leaf []LeafItem `json:"leaf"`
	Cont []Path     `json:"cont"`
	Ord  []OrdItem  `json:"ord"`
}

func S(n string) Step             { return Step{N: n, K: []string{}} }
func E(n string, k ...string) Step { return Step{N: n, K: append([]string{}, k...)} }

func (p Path) Child(s Step) Path {
	out := make(Path, len(p)+1)
	copy(out, p)
	out[len(p)] = s
	return out
}

func (p Path) String() string {
	var sb strings.Builder
	for _, s := range p {
		sb.WriteByte('/')
		if len(s.K) > 0 {
			sb.WriteString("[" + strings.Join(s.K, ",") + "]")
		} else {
			sb.WriteString(s.N)
		}
	}
	if len(p) == 0 {
		return "/"
	}
	return sb.String()
}

func (p Path) Key() string {
	b, _ := json.Marshal(p)
	return string(b)
}

func (p Path) IsEntry() bool { return len(p) > 0 && len(p[len(p)-1].K) > 0 }

func (p Path) HasPrefix(q Path) bool {
	if len(q) > len(p) {
		return false
	}
	for i := range q {
		if p[i].N != q[i].N || strings.Join(p[i].K, "\x00") != strings.Join(q[i].K, "\x00") || len(p[i].K) != len(q[i].K) {
			return false
		}
	}
	return true
}

// SPath is the schema path (entry steps dropped).
func (p Path) SPath() []string {
	out := []string{}
	for _, s := range p {
		if len(s.K) == 0 {
			out = append(out, s.N)
		}
	}
	return out
}

func NewTree() *Tree { return &Tree{Leaf: []LeafItem{}, Cont: []Path{}, Ord: []OrdItem{}} }

// Canon sorts leaf and cont (sets) so that equal trees serialise equally;
// ord keeps entry order.
func (t *Tree) Canon() *Tree {
	if t.Leaf == nil {
		t.Leaf = []LeafItem{}
	}
	if t.Cont == nil {
		t.Cont = []Path{}
	}
	if t.Ord == nil {
		t.Ord = []OrdItem{}
	}
	for i := range t.Leaf {
		if t.Leaf[i].V == nil {
			t.Leaf[i].V = []string{}
		}
	}
	for i := range t.Ord {
		if t.Ord[i].Keys == nil {
			t.Ord[i].Keys = [][]string{}
		}
	}
	sort.Slice(t.Leaf, func(i, j int) bool { return t.Leaf[i].P.Key() < t.Leaf[j].P.Key() })
	sort.Slice(t.Cont, func(i, j int) bool { return t.Cont[i].Key() < t.Cont[j].Key() })
	sort.Slice(t.Ord, func(i, j int) bool { return t.Ord[i].P.Key() < t.Ord[j].P.Key() })
	return t
}

func (t *Tree) Clone() *Tree {
	b, _ := json.Marshal(t)
	var out Tree
	json.Unmarshal(b, &out)
	return out.Canon()
}

func (t *Tree) JSON() string {
	b, _ := json.Marshal(t)
	return string(b)
}

func (t *Tree) HasCont(p Path) bool {
	k := p.Key()
	for _, c := range t.Cont {
		if c.Key() == k {
			return true
		}
	}
	return false
}

func (t *Tree) LeafAt(p Path) ([]string, bool) {
	k := p.Key()
	for _, l := range t.Leaf {
		if l.P.Key() == k {
			return l.V, true
		}
	}
	return nil, false
}

func (t *Tree) OrdAt(p Path) [][]string {
	k := p.Key()
	for _, o := range t.Ord {
		if o.P.Key() == k {
			return o.Keys
		}
	}
	return nil
}

// Size is the number of data nodes.
func (t *Tree) Size() int { return len(t.Leaf) + len(t.Cont) }

// FromAny decodes a tree from a generic JSON value (case input).
func TreeFromAny(v any) *Tree {
	b, _ := json.Marshal(v)
	var t Tree
	json.Unmarshal(b, &t)
	return t.Canon()
}

func PathFromAny(v any) Path {
	b, _ := json.Marshal(v)
	var p Path
	json.Unmarshal(b, &p)
	if p == nil {
		p = Path{}
	}
	for i := range p {
		if p[i].K == nil {
			p[i].K = []string{}
		}
	}
	return p
}

// ---------------------------------------------------------------- data schema

type CaseRef struct {
	Ch string `json:"ch"`
	Cs string `json:"cs"`
	D  int    `json:"d"`
}

type SNode struct {
	SP     []string  `json:"sp"`
	Kind   string    `json:"kind"`
	Keys   []string  `json:"keys"`
	Dflt   []string  `json:"dflt"`
	Cases  []CaseRef `json:"cases"`
	Config bool      `json:"config"`
	Type   string    `json:"type"`
	Module string    `json:"module"`
	When   string    `json:"when"`
	WhenP  Cond      `json:"whenp"` // the when expression taken apart (on = false: none)
	T      TypeDesc  `json:"t"`     // restrictions per typedef level, as written (RFC 7950 derivation)
	Enums  []EnumDef `json:"enums"` // enumeration: labels with assigned values; bits: labels with positions
	Bases  []string  `json:"ids"`   // identityref: every identity the leaf accepts
}

// Bound pair of a range / length alternative: numerals, or "min" / "max".
type Alt struct {
	Lo string `json:"lo"`
	Hi string `json:"hi"`
}

type Pat struct {
	Re  string `json:"re"`
	Inv bool   `json:"inv"`
}

// Level: the restrictions one level of a typedef chain states.
type Level struct {
	Ranges []Alt `json:"ranges"`
	Lens   []Alt `json:"lens"`
	Pats   []Pat `json:"pats"`
}

// TypeDesc describes a leaf's type as written: base, restriction levels innermost first,
// and for unions the member descriptors (one nesting level).
type TypeDesc struct {
	Base    string     `json:"base"`
	Levels  []Level    `json:"levels"`
	Members []TypeMem  `json:"members"`
}

type TypeMem struct {
	Base   string  `json:"base"`
	Levels []Level `json:"levels"`
}

// Cond is a comparison of the XPath subset: path <op> literal.
type Cond struct {
	On   bool     `json:"on"`
	Ctx  string   `json:"ctx"` // context node of a when: "self" | "parent"
	Path []string `json:"path"`
	Op   string   `json:"op"`
	Lit  string   `json:"lit"`
}

type EnumDef struct {
	L string `json:"l"`
	V int    `json:"v"`
}

type Schema []SNode

func (s Schema) Node(sp []string) *SNode {
	k := strings.Join(sp, "/")
	for i := range s {
		if strings.Join(s[i].SP, "/") == k {
			return &s[i]
		}
	}
	return nil
}

func (s Schema) Children(sp []string) []*SNode {
	var out []*SNode
	pre := strings.Join(sp, "/")
	for i := range s {
		n := &s[i]
		if len(n.SP) == len(sp)+1 && strings.Join(n.SP[:len(sp)], "/") == pre {
			out = append(out, n)
		}
	}
	return out
}
