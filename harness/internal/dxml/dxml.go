// Package dxml drives the XML writers and the XML reader (C19).
package dxml

import (
	"bytes"
	stdxml "encoding/xml"
	"fmt"
	"io"
	"math/rand"
	"strings"

	"verif/internal/abs"
	"verif/internal/core"
	"verif/internal/dedit"
	"verif/internal/djson"
	"verif/internal/fx"
	"verif/internal/gen"

	"github.com/freeconf/yang/meta"
	"github.com/freeconf/yang/node"
	"github.com/freeconf/yang/nodeutil"
)

func init() {
	core.Executors["xmlw"] = execXMLW
	fx.XMLSource = func(f *fx.Fixture, s *abs.Tree, at abs.Path) (node.Node, error) {
		return nodeutil.ReadXMLDoc(strings.NewReader(Render(f, s, at, nil)))
	}
}

// El is an element of the abstract XML document.
type El struct {
	N  string `json:"n"`
	NS string `json:"ns"`
	T  string `json:"t"`
	K  []El   `json:"k"`
}

// ParseDoc decodes exactly one well-formed document with a single root element using
// the standard library's decoder (not the library's patched copy).
func ParseDoc(text string) El {
	invalid := El{N: "#invalid", K: []El{}}
	dec := stdxml.NewDecoder(strings.NewReader(text))
	dec.Strict = true
	var root *El
	var stack []*El
	for {
		tok, err := dec.Token()
		if err == io.EOF {
			break
		}
		if err != nil {
			return invalid
		}
		switch x := tok.(type) {
		case stdxml.StartElement:
			e := &El{N: x.Name.Local, NS: x.Name.Space, K: []El{}}
			if len(stack) == 0 {
				if root != nil {
					return invalid // second root element
				}
				root = e
			}
			stack = append(stack, e)
		case stdxml.EndElement:
			if len(stack) == 0 {
				return invalid
			}
			top := stack[len(stack)-1]
			stack = stack[:len(stack)-1]
			if len(top.K) > 0 {
				if strings.TrimSpace(top.T) != "" {
					return invalid // mixed content is no rendering of YANG data
				}
				top.T = ""
			}
			if len(stack) > 0 {
				parent := stack[len(stack)-1]
				parent.K = append(parent.K, *top)
			}
		case stdxml.CharData:
			if len(stack) == 0 {
				if strings.TrimSpace(string(x)) != "" {
					return invalid
				}
				continue
			}
			stack[len(stack)-1].T += string(x)
		}
	}
	if root == nil || len(stack) != 0 {
		return invalid
	}
	return *root
}

func nsOf(f *fx.Fixture) map[string]string {
	out := map[string]string{f.Module.Ident(): f.Module.Namespace()}
	var walk func(h meta.HasDataDefinitions)
	walk = func(h meta.HasDataDefinitions) {
		for _, d := range h.DataDefinitions() {
			m := meta.OriginalModule(d)
			out[m.Ident()] = m.Namespace()
			if c, ok := d.(*meta.Choice); ok {
				for _, cs := range c.Cases() {
					walk(cs)
				}
			} else if hh, ok := d.(meta.HasDataDefinitions); ok {
				walk(hh)
			}
		}
	}
	walk(f.Module)
	return out
}

// Render writes the subtree at `at` as an XML document the way RFC 7950 prescribes;
// with a non-nil rnd the children of every element are interleaved at random, keeping
// the relative order of the elements of one list / leaf-list.
func Render(f *fx.Fixture, t *abs.Tree, at abs.Path, rnd *rand.Rand) string {
	var sb strings.Builder
	ns := nsOf(f)
	name, mod := f.Module.Ident(), f.Module.Ident()
	if len(at) > 0 {
		n := f.DS.Node(at.SPath())
		name, mod = n.SP[len(n.SP)-1], n.Module
	}
	sb.WriteString("<" + name + ` xmlns="` + ns[mod] + `">`)
	if len(at) > 0 && !at.IsEntry() && f.DS.Node(at.SPath()).Kind == "list" {
		for _, key := range t.OrdAt(at) {
			ep := at.Child(abs.E(name, key...))
			sb.WriteString("<" + name + ">")
			renderKids(f, t, ep, mod, ns, rnd, &sb)
			sb.WriteString("</" + name + ">")
		}
	} else {
		renderKids(f, t, at, mod, ns, rnd, &sb)
	}
	sb.WriteString("</" + name + ">")
	return sb.String()
}

func esc(s string) string {
	var b bytes.Buffer
	stdxml.EscapeText(&b, []byte(s))
	return b.String()
}

func renderKids(f *fx.Fixture, t *abs.Tree, p abs.Path, parentMod string, ns map[string]string, rnd *rand.Rand, sb *strings.Builder) {
	var groups [][]string
	for _, n := range f.DS.Children(p.SPath()) {
		name := n.SP[len(n.SP)-1]
		q := p.Child(abs.S(name))
		open := "<" + name + ">"
		if n.Module != parentMod {
			open = "<" + name + ` xmlns="` + ns[n.Module] + `">`
		}
		cl := "</" + name + ">"
		switch n.Kind {
		case "leaf":
			if v, ok := t.LeafAt(q); ok {
				groups = append(groups, []string{open + esc(v[0]) + cl})
			}
		case "leaflist":
			if v, ok := t.LeafAt(q); ok {
				var g []string
				for _, x := range v {
					g = append(g, open+esc(x)+cl)
				}
				groups = append(groups, g)
			}
		case "container":
			if t.HasCont(q) {
				var inner strings.Builder
				renderKids(f, t, q, n.Module, ns, rnd, &inner)
				groups = append(groups, []string{open + inner.String() + cl})
			}
		case "list":
			if t.HasCont(q) {
				var g []string
				for _, key := range t.OrdAt(q) {
					var inner strings.Builder
					renderKids(f, t, q.Child(abs.E(name, key...)), n.Module, ns, rnd, &inner)
					g = append(g, open+inner.String()+cl)
				}
				groups = append(groups, g)
			}
		}
	}
	if rnd == nil {
		for _, g := range groups {
			for _, e := range g {
				sb.WriteString(e)
			}
		}
		return
	}
	// random merge preserving the order inside each group
	idx := make([]int, len(groups))
	for {
		var live []int
		for gi, g := range groups {
			if idx[gi] < len(g) {
				live = append(live, gi)
			}
		}
		if len(live) == 0 {
			return
		}
		gi := live[rnd.Intn(len(live))]
		sb.WriteString(groups[gi][idx[gi]])
		idx[gi]++
	}
}

func modulesOf(f *fx.Fixture) []string {
	var out []string
	for m := range nsOf(f) {
		out = append(out, m)
	}
	for m := range fx.Extra {
		out = append(out, m)
	}
	return out
}

func atKindOf(f *fx.Fixture, at abs.Path) string {
	if len(at) == 0 {
		return "root"
	}
	if at.IsEntry() {
		return "entry"
	}
	return f.DS.Node(at.SPath()).Kind
}

func briefs(s string) string {
	if len(s) > 300 {
		return s[:300] + "…"
	}
	return s
}

// case {kind:"xmlw", fixture, store, tree, at, enumids, interleave (seed, 0 = none)}
func execXMLW(c core.Case) []core.Rec {
	f, err := fx.Load(c["fixture"].(string))
	if err != nil {
		return []core.Rec{{"chk": "harness", "sig": core.Rec{"err": err.Error()}}}
	}
	storeName := c["store"].(string)
	kind := fx.Stores[storeName]
	t := abs.TreeFromAny(c["tree"])
	at := abs.PathFromAny(c["at"])
	enumids, _ := c["enumids"].(bool)
	root := kind.Build(f, t)
	t = kind.Project(f, root)
	b := node.NewBrowser(f.Module, kind.Wrap(root))
	sel := b.Root()
	if len(at) > 0 {
		ferr, _, _ := dedit.Guard(func() error {
			var e error
			sel, e = sel.Find(fx.URLPath(at))
			return e
		})
		if ferr != nil || sel == nil {
			return []core.Rec{{"chk": "skip", "why": "start-selection-not-found", "sig": core.Rec{"impl": storeName}}}
		}
	}
	ak := atKindOf(f, at)
	var recs []core.Rec
	var docText string
	for _, writer := range []string{"doc", "stream"} {
		rec := core.Rec{"chk": "xmldoc", "writer": writer, "schema": f.Name, "module": f.Module.Ident(), "modules": modulesOf(f), "ns": nsOf(f), "impl": storeName,
			"tree": t, "at": at, "cfg": core.Rec{"enumids": enumids}, "err": "", "doc": ParseDoc(""), "step": writer,
			"sig": core.Rec{"impl": storeName, "writer": writer, "at": ak, "enumids": enumids}}
		var text string
		werr, panicked, frame := dedit.Guard(func() error {
			var e error
			if writer == "doc" {
				text, e = nodeutil.WriteXMLDoc(sel, false)
			} else {
				text, e = nodeutil.XMLWtr{EnumAsIds: enumids}.XML(sel)
			}
			return e
		})
		if writer == "doc" && enumids {
			continue // WriteXMLDoc has no EnumAsIds switch
		}
		if panicked {
			rec["err"] = "panic"
			rec["sig"].(core.Rec)["frame"] = frame
		} else if werr != nil {
			rec["err"] = dedit.ErrClass(werr)
			rec["msg"] = briefs(werr.Error())
		} else {
			rec["doc"] = ParseDoc(text)
			rec["text"] = briefs(text)
			if writer == "doc" {
				docText = text
			}
		}
		recs = append(recs, rec)
	}
	readBack := func(text, src, step string) {
		tkind := fx.Stores["rmap"]
		pre := gen.WithAncestors(f.DS, abs.NewTree(), at)
		troot := tkind.Build(f, pre)
		tb := node.NewBrowser(f.Module, tkind.Wrap(troot))
		tsel := tb.Root()
		sub := djson.Subtree(t, at)
		res := core.Rec{"ok": false, "err": "", "frame": "", "msg": ""}
		rerr, rp, rframe := dedit.Guard(func() error {
			var e error
			if len(at) > 0 {
				if tsel, e = tsel.Find(fx.URLPath(at)); e != nil || tsel == nil {
					return fmt.Errorf("harness: target has no %s: %v", at, e)
				}
			}
			n, e := nodeutil.ReadXMLDoc(strings.NewReader(text))
			if e != nil {
				return e
			}
			return tsel.UpsertFrom(n)
		})
		if rp {
			res["err"] = "panic"
			res["frame"] = rframe
		} else if rerr != nil {
			res["err"] = dedit.ErrClass(rerr)
			res["msg"] = briefs(rerr.Error())
		} else {
			res["ok"] = true
		}
		recs = append(recs, core.Rec{"chk": "edit", "schema": f.Name, "impl": "rmap", "src": src, "ordered": false, "srcordered": true,
			"pre": pre, "op": core.Rec{"k": "upsert", "at": at, "s": sub, "dup": false}, "res": res, "post": tkind.Project(f, troot), "step": step, "text": briefs(text),
			"sig": core.Rec{"impl": storeName, "src": src, "k": "upsert", "at": ak}})
	}
	if docText != "" && !enumids && ak != "list" {
		readBack(docText, "xml-roundtrip", "roundtrip")
	}
	if seed, _ := c["interleave"].(float64); seed != 0 && ak != "list" {
		readBack(Render(f, t, at, rand.New(rand.NewSource(int64(seed)))), "xml-interleaved", "interleaved")
	}
	return recs
}
