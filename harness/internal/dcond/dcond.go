// Package dcond drives when / where / filter (C16).
package dcond

import (
	"regexp"
	"net/url"
	"fmt"
	"strings"

	"verif/internal/abs"
	"verif/internal/core"
	"verif/internal/dedit"
	"verif/internal/fx"

	"github.com/freeconf/yang/node"
	"github.com/freeconf/yang/nodeutil"
)

func init() {
	core.Executors["whenread"] = execWhenRead
	core.Executors["whenedit"] = execWhenEdit
	core.Executors["where"] = execWhere
	core.Executors["filter"] = execFilter
}

func result(err error, panicked bool, frame string) core.Rec {
	res := core.Rec{"ok": false, "err": "", "msg": "", "frame": ""}
	if panicked {
		res["err"] = "panic"
		res["frame"] = frame
		res["msg"] = brief(fmt.Sprint(err))
	} else if err != nil {
		res["err"] = dedit.ErrClass(err)
		res["msg"] = brief(err.Error())
	} else {
		res["ok"] = true
	}
	return res
}

func brief(s string) string {
	if len(s) > 150 {
		return s[:150]
	}
	return s
}

func condText(c abs.Cond) string {
	lit := c.Lit
	// a number literal is written bare, everything else in quotes
	if !regexp.MustCompile(`^-?[0-9]+(\.[0-9]+)?$`).MatchString(lit) {
		lit = "'" + lit + "'"
	}
	if len(c.Lit) > 15 { // large numerals
		lit = c.Lit
	}
	return strings.Join(c.Path, "/") + c.Op + lit
}

func setup(c core.Case) (*fx.Fixture, *fx.StoreKind, string, *abs.Tree, any, *node.Browser, error) {
	f, err := fx.Load(c["fixture"].(string))
	if err != nil {
		return nil, nil, "", nil, nil, nil, err
	}
	storeName := c["store"].(string)
	kind := fx.Stores[storeName]
	t := abs.TreeFromAny(c["tree"])
	root := kind.Build(f, t)
	t = kind.Project(f, root)
	return f, kind, storeName, t, root, node.NewBrowser(f.Module, kind.Wrap(root)), nil
}

func execWhenRead(c core.Case) []core.Rec {
	f, kind, storeName, t, root, b, err := setup(c)
	if err != nil {
		return []core.Rec{{"chk": "harness", "sig": core.Rec{"err": err.Error()}}}
	}
	capt := fx.NewCapture(f)
	rerr, p, frame := dedit.Guard(func() error { return b.Root().UpsertInto(capt.Node(abs.Path{})) })
	return []core.Rec{{"chk": "whenread", "schema": f.Name, "impl": storeName, "tree": t, "res": result(rerr, p, frame),
		"got": capt.Result(), "post": kind.Project(f, root), "sig": core.Rec{"impl": storeName, "frame": frame}}}
}

// case {kind:"whenedit", fixture, store, tree, leaf: Path, v: lexical value}
func execWhenEdit(c core.Case) []core.Rec {
	f, kind, storeName, t, root, b, err := setup(c)
	if err != nil {
		return []core.Rec{{"chk": "harness", "sig": core.Rec{"err": err.Error()}}}
	}
	leaf := abs.PathFromAny(c["leaf"])
	v := c["v"].(string)
	parent := leaf[:len(leaf)-1]
	src := abs.NewTree()
	if len(parent) > 0 {
		src.Cont = append(src.Cont, parent)
	}
	src.Leaf = append(src.Leaf, abs.LeafItem{P: leaf, V: []string{v}})
	var sel *node.Selection
	rerr, p, frame := dedit.Guard(func() error {
		var e error
		sel = b.Root()
		if len(parent) > 0 {
			if sel, e = sel.Find(fx.URLPath(parent)); e != nil || sel == nil {
				return fmt.Errorf("harness: no parent %s: %v", parent, e)
			}
		}
		n, e := nodeutil.ReadJSON(fx.JSONDoc(f, src, parent))
		if e != nil {
			return e
		}
		return sel.UpsertFrom(n)
	})
	if rerr != nil && strings.HasPrefix(rerr.Error(), "harness:") {
		return []core.Rec{{"chk": "skip", "why": rerr.Error(), "sig": core.Rec{"impl": storeName}}}
	}
	return []core.Rec{{"chk": "whenedit", "schema": f.Name, "impl": storeName, "pre": t, "leaf": leaf, "v": []string{v}, "res": result(rerr, p, frame),
		"post": kind.Project(f, root), "sig": core.Rec{"impl": storeName, "leaf": strings.Join(leaf.SPath(), "/"), "frame": frame}}}
}

// case {kind:"where", fixture, store, tree, list: Path, cond}
func execWhere(c core.Case) []core.Rec {
	f, kind, storeName, t, _, b, err := setup(c)
	if err != nil {
		return []core.Rec{{"chk": "harness", "sig": core.Rec{"err": err.Error()}}}
	}
	list := abs.PathFromAny(c["list"])
	var cond abs.Cond
	core.Recode(c["cond"], &cond)
	capt := fx.NewCapture(f)
	rerr, p, frame := dedit.Guard(func() error {
		sel, e := b.Root().Find(fx.URLPath(list) + "?where=" + url.QueryEscape(condText(cond)))
		if e != nil {
			return e
		}
		if sel == nil {
			return fmt.Errorf("harness: no list %s", list)
		}
		return sel.UpsertInto(capt.Node(list))
	})
	if rerr != nil && strings.HasPrefix(rerr.Error(), "harness:") {
		return []core.Rec{{"chk": "skip", "why": rerr.Error(), "sig": core.Rec{"impl": storeName}}}
	}
	got := [][]string{}
	for _, o := range capt.Result().Ord {
		if o.P.Key() == list.Key() {
			got = o.Keys
		}
	}
	ordered := true
	for _, o := range t.Ord {
		if o.P.Key() == list.Key() && o.U {
			ordered = false
		}
	}
	_ = kind
	return []core.Rec{{"chk": "where", "schema": f.Name, "impl": storeName, "tree": t, "list": list, "cond": cond, "text": condText(cond), "res": result(rerr, p, frame),
		"got": got, "ordered": ordered, "sig": core.Rec{"impl": storeName, "cond": condText(cond), "frame": frame}}}
}

// case {kind:"filter", fixture, events: [Tree], cond}
func execFilter(c core.Case) []core.Rec {
	f, err := fx.Load(c["fixture"].(string))
	if err != nil {
		return []core.Rec{{"chk": "harness", "sig": core.Rec{"err": err.Error()}}}
	}
	var events []*abs.Tree
	for _, e := range c["events"].([]any) {
		events = append(events, abs.TreeFromAny(e))
	}
	var cond abs.Cond
	core.Recode(c["cond"], &cond)
	kind := fx.Stores["rmap"]
	rootNode := &nodeutil.Basic{
		OnNotify: func(r node.NotifyRequest) (node.NotifyCloser, error) {
			for i, ev := range events {
				payload := kind.BuildMapAt(f, ev, abs.Path{abs.S("evt")})
				payload["__idx"] = i + 1
				r.Send(nodeutil.ReflectChild(payload))
			}
			return func() error { return nil }, nil
		},
	}
	b := node.NewBrowser(f.Module, rootNode)
	delivered := []int{}
	rerr, p, frame := dedit.Guard(func() error {
		sel, e := b.Root().Find("evt?filter=" + url.QueryEscape(condText(cond)))
		if e != nil {
			return e
		}
		if sel == nil {
			return fmt.Errorf("no selection for notification")
		}
		closer, e := sel.Notifications(func(n node.Notification) {
			if m, ok := n.Event.Peek(nil).(map[string]any); ok {
				if i, ok := m["__idx"].(int); ok {
					delivered = append(delivered, i)
					return
				}
			}
			delivered = append(delivered, -1)
		})
		if e != nil {
			return e
		}
		return closer()
	})
	return []core.Rec{{"chk": "filter", "schema": f.Name, "events": events, "cond": cond, "text": condText(cond), "res": result(rerr, p, frame),
		"delivered": delivered, "sig": core.Rec{"cond": condText(cond), "frame": frame}}}
}
