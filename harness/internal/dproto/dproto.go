// Package dproto records the node callback protocol of edits and deletes with
// harness-owned wrappers around the real nodes on both sides, and injects an error
// at a chosen callback position (C12).
package dproto

import (
	"context"
	"errors"
	"fmt"
	"strings"

	"verif/internal/abs"
	"verif/internal/core"
	"verif/internal/dedit"
	"verif/internal/fx"

	"github.com/freeconf/yang/meta"
	"github.com/freeconf/yang/node"
	"github.com/freeconf/yang/nodeutil"
	"github.com/freeconf/yang/val"
)

func init() {
	core.Executors["proto"] = execProto
}

var errInjected = errors.New("injected callback failure")

type Event struct {
	Cb    string   `json:"cb"`
	Side  string   `json:"side"`
	N     []string `json:"n"`
	Write bool     `json:"write"`
	Ok    bool     `json:"ok"`
}

type plog struct {
	on     bool
	events []Event
	failAt int // 1-based position of the callback that fails; 0 = none
}

// note records the callback and says whether it must fail.
func (l *plog) note(e Event) (idx int, fail bool) {
	if !l.on {
		return -1, false
	}
	l.events = append(l.events, e)
	idx = len(l.events) - 1
	if l.failAt == len(l.events) && e.Cb != "choose" {
		l.events[idx].Ok = false
		return idx, true
	}
	return idx, false
}

func (l *plog) result(idx int, err error) {
	if idx >= 0 && err != nil {
		l.events[idx].Ok = false
	}
}

type recNode struct {
	inner node.Node
	id    []string
	side  string
	log   *plog
}

func (r *recNode) sub(inner node.Node, step string) node.Node {
	if inner == nil {
		return nil
	}
	id := append(append([]string{}, r.id...), step)
	return &recNode{inner: inner, id: id, side: r.side, log: r.log}
}

func (r *recNode) Child(req node.ChildRequest) (node.Node, error) {
	if req.IsNavigation() {
		c, err := r.inner.Child(req)
		return r.sub(c, req.Meta.Ident()), err
	}
	idx, fail := r.log.note(Event{Cb: "child", Side: r.side, N: r.id, Write: req.New || req.Delete, Ok: true})
	if fail {
		return nil, errInjected
	}
	c, err := r.inner.Child(req)
	r.log.result(idx, err)
	return r.sub(c, req.Meta.Ident()), err
}

func keyStep(name string, key []val.Value) string {
	var ks []string
	for _, k := range key {
		if k == nil {
			ks = append(ks, "<nil>")
		} else {
			ks = append(ks, k.String())
		}
	}
	return name + "=" + strings.Join(ks, ",")
}

func (r *recNode) Next(req node.ListRequest) (node.Node, []val.Value, error) {
	if req.IsNavigation() {
		c, key, err := r.inner.Next(req)
		if key == nil {
			key = req.Key
		}
		return r.sub(c, keyStep(req.Meta.Ident(), key)), key, err
	}
	idx, fail := r.log.note(Event{Cb: "next", Side: r.side, N: r.id, Write: req.New || req.Delete, Ok: true})
	if fail {
		return nil, nil, errInjected
	}
	c, key, err := r.inner.Next(req)
	r.log.result(idx, err)
	k := key
	if k == nil {
		k = req.Key
	}
	return r.sub(c, keyStep(req.Meta.Ident(), k)), key, err
}

func (r *recNode) Field(req node.FieldRequest, hnd *node.ValueHandle) error {
	if req.IsNavigation() {
		return r.inner.Field(req, hnd)
	}
	idx, fail := r.log.note(Event{Cb: "field", Side: r.side, N: r.id, Write: req.Write || req.Clear, Ok: true})
	if fail {
		return errInjected
	}
	err := r.inner.Field(req, hnd)
	r.log.result(idx, err)
	return err
}

func (r *recNode) Choose(sel *node.Selection, choice *meta.Choice) (*meta.ChoiceCase, error) {
	// the editor deliberately ignores Choose errors of the target (a write-only node may
	// not implement it); no fault is injected here, the call is only recorded
	r.log.note(Event{Cb: "choose", Side: r.side, N: r.id, Write: false, Ok: true})
	return r.inner.Choose(sel, choice)
}

func (r *recNode) BeginEdit(req node.NodeRequest) error {
	idx, fail := r.log.note(Event{Cb: "begin", Side: r.side, N: r.id, Write: false, Ok: true})
	if fail {
		return errInjected
	}
	err := r.inner.BeginEdit(req)
	r.log.result(idx, err)
	return err
}

func (r *recNode) EndEdit(req node.NodeRequest) error {
	idx, fail := r.log.note(Event{Cb: "end", Side: r.side, N: r.id, Write: false, Ok: true})
	if fail {
		return errInjected
	}
	err := r.inner.EndEdit(req)
	r.log.result(idx, err)
	return err
}

func (r *recNode) Action(req node.ActionRequest) (node.Node, error) { return r.inner.Action(req) }
func (r *recNode) Notify(req node.NotifyRequest) (node.NotifyCloser, error) {
	return r.inner.Notify(req)
}
func (r *recNode) Peek(sel *node.Selection, consumer interface{}) interface{} {
	return r.inner.Peek(sel, consumer)
}
func (r *recNode) Context(sel *node.Selection) context.Context { return r.inner.Context(sel) }
func (r *recNode) Release(sel *node.Selection)                  { r.inner.Release(sel) }

// idOf renders a data path the way the wrappers name nodes.
func idOf(p abs.Path) []string {
	out := []string{}
	for i := 0; i < len(p); i++ {
		if len(p[i].K) > 0 {
			continue
		}
		out = append(out, p[i].N)
		if i+1 < len(p) && len(p[i+1].K) > 0 {
			out = append(out, p[i].N+"="+strings.Join(p[i+1].K, ","))
		}
	}
	return out
}

// run executes the scenario once with the k-th callback failing (k = 0: none).
func run(f *fx.Fixture, kind *fx.StoreKind, pre *abs.Tree, op dedit.Op, k int) (events []Event, err error, panicked bool, harness error) {
	root := kind.Build(f, pre)
	lg := &plog{failAt: k}
	b := node.NewBrowser(f.Module, &recNode{inner: kind.Wrap(root), id: []string{}, side: "target", log: lg})
	sel := b.Root()
	if len(op.At) > 0 {
		var e error
		sel, e = sel.Find(fx.URLPath(op.At))
		if e != nil || sel == nil {
			return nil, nil, false, fmt.Errorf("no selection at %s: %v", op.At, e)
		}
	}
	var src node.Node
	if op.K != "delete" {
		text := fx.JSONDoc(f, op.S, op.At)
		n, e := nodeutil.ReadJSON(text)
		if e != nil {
			return nil, nil, false, e
		}
		src = &recNode{inner: n, id: idOf(op.At), side: "source", log: lg}
	}
	lg.on = true
	err, panicked, _ = dedit.Guard(func() error {
		switch op.K {
		case "upsert":
			return sel.UpsertFrom(src)
		case "insert":
			return sel.InsertFrom(src)
		case "update":
			return sel.UpdateFrom(src)
		case "delete":
			return sel.Delete()
		}
		return fmt.Errorf("unknown op")
	})
	lg.on = false
	return lg.events, err, panicked, nil
}

// case {kind:"proto", fixture, store, pre, op}: runs fault free, then once per callback
// position with that callback failing; one record per run.
func execProto(c core.Case) []core.Rec {
	f, err := fx.Load(c["fixture"].(string))
	if err != nil {
		return []core.Rec{{"chk": "harness", "sig": core.Rec{"err": err.Error()}}}
	}
	storeName := c["store"].(string)
	kind := fx.Stores[storeName]
	pre := abs.TreeFromAny(c["pre"])
	var op dedit.Op
	core.Recode(c["op"], &op)
	if op.S != nil {
		op.S.Canon()
	}
	if op.At == nil {
		op.At = abs.Path{}
	}
	for i := range op.At {
		if op.At[i].K == nil {
			op.At[i].K = []string{}
		}
	}
	base, berr, bp, herr := run(f, kind, pre, op, 0)
	if herr != nil {
		return []core.Rec{{"chk": "skip", "why": herr.Error(), "sig": core.Rec{"impl": storeName}}}
	}
	mk := func(k int, events []Event, err error, panicked bool) core.Rec {
		if events == nil {
			events = []Event{}
		}
		cb := "none"
		if k > 0 && k <= len(events) {
			cb = events[k-1].Side + "-" + events[k-1].Cb
		}
		return core.Rec{"chk": "proto", "schema": f.Name, "impl": storeName, "root": idOf(op.At), "events": events, "k": k,
			"ret": core.Rec{"err": err != nil, "wraps": err != nil && errors.Is(err, errInjected), "panic": panicked}, "step": k,
			"sig": core.Rec{"impl": storeName, "op": op.K, "failed": cb}}
	}
	recs := []core.Rec{mk(0, base, berr, bp)}
	if berr != nil {
		return recs // the scenario itself fails (e.g. insert conflict): no fault sweep
	}
	for k := 1; k <= len(base); k++ {
		ev, e, p, herr := run(f, kind, pre, op, k)
		if herr != nil {
			continue
		}
		recs = append(recs, mk(k, ev, e, p))
	}
	return recs
}
