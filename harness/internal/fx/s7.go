package fx

func init() {
	Extra["S7g"] = `module S7g {
  namespace "urn:verif:s7g";
  prefix "g";
  revision 2024-01-01;
  grouping kinds {
    choice kind {
      case plain {
        leaf p { type string; }
      }
      case other {
        leaf o { type string; }
      }
    }
    leaf-list gports { type int32; }
    leaf-list gnames { type string; }
  }
}`
	// S7: containers four levels deep (selectors with groups after long prefixes), choices
	// nested three deep with containers and lists in the innermost cases, a case and a
	// container added by this module to a choice that an imported grouping defines, leaf-lists
	// that an imported grouping defines
	Sources["S7"] = `module S7 {
  namespace "urn:verif:s7";
  prefix "s7";
  import S7g { prefix g; }
  revision 2024-01-01;

  container a {
    leaf al { type string; }
    leaf-list words { type string; default "u v"; }
    container d {
      leaf dq { type string; }
    }
    container b {
      leaf bl { type string; }
      container c {
        leaf x { type string; }
        leaf y { type string; }
        leaf z { type int32; }
        leaf zd { type int32; default 0; }
        leaf bf { type boolean; default false; }
        leaf-list tags { type string; default "t1"; default "t2"; }
        container d {
          leaf u { type string; }
          leaf v { type string; }
        }
      }
    }
  }
  container a2 {
    container b {
      leaf bq { type string; }
      container c {
        leaf x { type string; }
      }
    }
    container d {
      leaf u { type string; }
    }
  }
  container iface {
    leaf name { type string; }
    choice l1 {
      case c1 {
        choice l2 {
          case c2 {
            choice l3 {
              case c3a {
                leaf svlan { type int32; }
                list label {
                  key "id";
                  leaf id { type int32; }
                  leaf lv { type string; }
                }
                container tagc {
                  leaf tag { type string; }
                }
              }
              case c3b {
                leaf native { type string; }
              }
            }
          }
          case c2b {
            leaf mid { type string; }
          }
        }
      }
      case c1b {
        leaf top1 { type string; }
      }
      case czero {
        leaf zn { type int32; }
        leaf zb { type boolean; }
        leaf zs { type string; }
      }
    }
  }
  container top {
    leaf mode { type int32; }
    uses g:kinds;
  }
  augment "/top/kind" {
    case fancy {
      leaf f { type string; }
      container fc {
        leaf fcl { type string; }
      }
    }
  }
  augment "/top/kind" {
    leaf tok { type string; }
    container crt {
      leaf cl { type string; }
    }
  }
  list reading {
    key "q";
    leaf q { type enumeration { enum "n/a"; enum "mg/l"; enum "a+b"; enum "B,C"; enum "x=y"; enum plain; } }
    leaf val { type int32; }
  }
  list blob {
    key "id";
    leaf id { type binary; }
    leaf bv { type string; }
  }
  list rows {
    key "a b";
    leaf a { type string; }
    leaf b { type int32; }
    leaf rv { type string; }
  }
}`
}
