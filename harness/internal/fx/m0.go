package fx

func init() {
	// M0: the mini schema of the exhaustive store model (spec/FcEditModel.tla)
	Sources["M0"] = `module M0 {
  namespace "urn:verif:m0";
  prefix "m0";
  revision 2024-01-01;

  container c {
    leaf x { type string; }
    leaf y { type int32; default 7; }
  }
  list l {
    key "k";
    leaf k { type string; }
    leaf v { type string; default "dv"; }
    container e {
      leaf w { type string; }
    }
  }
  choice ch {
    case one {
      leaf p { type string; }
    }
    case two {
      container q {
        leaf r { type string; default "dr"; }
      }
    }
  }
}`
}
