package fx

import (
	"fmt"
	"strings"

	"verif/internal/abs"
)

// S6 is described by a table (the RFC 7950 reading of each type statement) from which
// both the YANG text (typedef chains) and the type descriptors of the abstract schema
// are rendered: restrictions per typedef level, innermost first.

type tLevel struct {
	Range, Length string
	Pats          []abs.Pat
}

type tLeaf struct {
	Name   string
	Base   string
	Body   string // extra statements of the base type (fraction-digits, enum, bit, base ...)
	Levels []tLevel
	List   bool
	Union  []tLeaf // members
	Share  string  // name of the leaf whose typedefs (all levels but the last) this one derives from as well
}

var s6Leaves = []tLeaf{
	{Name: "r1", Base: "int32", Levels: []tLevel{{Range: "0..100"}}},
	{Name: "r2", Base: "int32", Levels: []tLevel{{Range: "0..100"}, {Range: "10..20"}}},
	{Name: "r3", Base: "int8", Levels: []tLevel{{Range: "-128..-1 | 1..127"}}},
	{Name: "r4", Base: "int32", Levels: []tLevel{{Range: "min..0"}}},
	{Name: "r5", Base: "uint8", Levels: []tLevel{{Range: "200..max"}}},
	{Name: "r6", Base: "int64", Levels: []tLevel{{Range: "9223372036854775806..max"}}},
	{Name: "r7", Base: "uint64", Levels: []tLevel{{Range: "18446744073709551614..max | 0..1"}}},
	{Name: "r8", Base: "int32", Levels: []tLevel{{Range: "5"}}},
	{Name: "r9", Base: "int16", Levels: []tLevel{{Range: "-32768..-32767 | 0 | 32766..32767"}}},
	{Name: "r10", Base: "uint8", Levels: []tLevel{{Range: "0..200"}, {Range: "100..max"}, {Range: "min..127"}}},
	{Name: "r11", Base: "int64", Levels: []tLevel{{Range: "min..-9223372036854775807 | 0..1"}}},
	{Name: "r12", Base: "int32", Levels: []tLevel{{Range: "1..5 | max"}}},
	{Name: "r13", Base: "uint8", Levels: []tLevel{{Range: "min | 10..20"}}},
	{Name: "r14", Base: "int32", Levels: []tLevel{{Range: "0..250"}, {Range: "10..200"}, {Range: "20..150"}, {Range: "30..40"}}},
	{Name: "r15", Base: "int32", Share: "r14", Levels: []tLevel{{Range: "0..250"}, {Range: "10..200"}, {Range: "20..150"}, {Range: "100..120"}}},
	{Name: "r16", Base: "int32", Share: "r14", List: true, Levels: []tLevel{{Range: "0..250"}, {Range: "10..200"}, {Range: "20..150"}, {Range: "130..140"}}},
	{Name: "d1", Base: "decimal64", Body: "fraction-digits 2;", Levels: []tLevel{{Range: "-0.5..1.5"}}},
	{Name: "d2", Base: "decimal64", Body: "fraction-digits 2;", Levels: []tLevel{{Range: "0..255.5"}, {Range: "0.5..127.5"}}},
	{Name: "s1", Base: "string", Levels: []tLevel{{Length: "1..3"}}},
	{Name: "s2", Base: "string", Levels: []tLevel{{Length: "0..5"}, {Length: "2..4"}}},
	{Name: "s3", Base: "string", Levels: []tLevel{{Length: "0 | 2..max"}}},
	{Name: "s10", Base: "string", Levels: []tLevel{{Length: "1..3 | max"}}},
	{Name: "s4", Base: "string", Levels: []tLevel{{Pats: []abs.Pat{{Re: "[a-c]+"}}}}},
	{Name: "s5", Base: "string", Levels: []tLevel{{Pats: []abs.Pat{{Re: "[a-z]*"}, {Re: ".*b.*"}}}}},
	{Name: "s6", Base: "string", Levels: []tLevel{{Pats: []abs.Pat{{Re: "[a-z]+"}}}, {Pats: []abs.Pat{{Re: "a.*", Inv: true}}}}},
	{Name: "s11", Base: "string", Levels: []tLevel{{Pats: []abs.Pat{{Re: "a.*"}}}}},
	{Name: "s7", Base: "string", Levels: []tLevel{{Length: "1..4", Pats: []abs.Pat{{Re: "[0-9a]+"}}}}},
	{Name: "s8", Base: "string", Levels: []tLevel{{Pats: []abs.Pat{{Re: "ab|cd|xy"}}}}},
	{Name: "s9", Base: "string", Levels: []tLevel{{Pats: []abs.Pat{{Re: "tmp|lost", Inv: true}}}}},
	{Name: "ls2", Base: "string", List: true, Levels: []tLevel{{Pats: []abs.Pat{{Re: "[a-z]+|[0-9]+"}}}}},
	{Name: "en", Base: "enumeration", Body: "enum zeta { value 0; } enum one; enum alpha { value 5; }"},
	{Name: "bt", Base: "bits", Body: "bit b0 { position 0; } bit b1; bit b5 { position 5; }"},
	{Name: "idr", Base: "identityref", Body: "base ibase;"},
	{Name: "un", Base: "union", Union: []tLeaf{{Base: "int32", Levels: []tLevel{{Range: "0..10"}}}, {Base: "string", Levels: []tLevel{{Length: "2..3"}}}}},
	{Name: "lr1", Base: "int32", List: true, Levels: []tLevel{{Range: "0..100"}}},
	{Name: "ls1", Base: "string", List: true, Levels: []tLevel{{Length: "1..3"}}},
	{Name: "lu8", Base: "uint8", List: true, Levels: []tLevel{{Range: "10..20 | 200..max"}}},
}

func patStmts(ps []abs.Pat) string {
	var sb strings.Builder
	for _, p := range ps {
		if p.Inv {
			fmt.Fprintf(&sb, " pattern \"%s\" { modifier invert-match; }", p.Re)
		} else {
			fmt.Fprintf(&sb, " pattern \"%s\";", p.Re)
		}
	}
	return sb.String()
}

func restr(l tLevel) string {
	var sb strings.Builder
	if l.Range != "" {
		fmt.Fprintf(&sb, " range \"%s\";", l.Range)
	}
	if l.Length != "" {
		fmt.Fprintf(&sb, " length \"%s\";", l.Length)
	}
	sb.WriteString(patStmts(l.Pats))
	return sb.String()
}

// typeText renders the type statement of a leaf and the typedefs it needs.
func typeText(name string, l tLeaf, typedefs *strings.Builder) string {
	if len(l.Union) > 0 {
		var sb strings.Builder
		sb.WriteString("type union {")
		for i, m := range l.Union {
			sb.WriteString(" " + typeText(fmt.Sprintf("%s_m%d", name, i), m, typedefs))
		}
		sb.WriteString(" }")
		return sb.String()
	}
	cur := l.Base
	for i, lv := range l.Levels {
		last := i == len(l.Levels)-1
		body := restr(lv)
		if i == 0 {
			body = " " + l.Body + body
		}
		if last {
			return fmt.Sprintf("type %s {%s }", cur, body)
		}
		owner := name
		if l.Share != "" {
			owner = l.Share
		}
		td := fmt.Sprintf("t_%s_%d", owner, i)
		if l.Share == "" {
			fmt.Fprintf(typedefs, "  typedef %s { type %s {%s } }\n", td, cur, body)
		}
		cur = td
	}
	if l.Body != "" {
		return fmt.Sprintf("type %s { %s }", cur, l.Body)
	}
	return fmt.Sprintf("type %s;", cur)
}

func s6Yang() string {
	var typedefs, leaves strings.Builder
	for _, l := range s6Leaves {
		kw := "leaf"
		if l.List {
			kw = "leaf-list"
		}
		t := typeText(l.Name, l, &typedefs)
		if !strings.HasSuffix(t, ";") && !strings.HasSuffix(t, "}") {
			t += ";"
		}
		fmt.Fprintf(&leaves, "    %s %s { %s }\n", kw, l.Name, t)
	}
	return "module S6 {\n  namespace \"urn:verif:s6\";\n  prefix \"s6\";\n  revision 2024-01-01;\n  identity ibase;\n  identity iderived { base ibase; }\n  identity other;\n" +
		typedefs.String() + "  container t {\n" + leaves.String() + "  }\n}\n"
}

func parseAlts(s string) []abs.Alt {
	out := []abs.Alt{}
	if s == "" {
		return out
	}
	for _, part := range strings.Split(s, "|") {
		part = strings.TrimSpace(part)
		if i := strings.Index(part, ".."); i >= 0 {
			out = append(out, abs.Alt{Lo: strings.TrimSpace(part[:i]), Hi: strings.TrimSpace(part[i+2:])})
		} else {
			out = append(out, abs.Alt{Lo: part, Hi: part})
		}
	}
	return out
}

func levelsOf(ls []tLevel) []abs.Level {
	out := []abs.Level{}
	for _, l := range ls {
		pats := l.Pats
		if pats == nil {
			pats = []abs.Pat{}
		}
		out = append(out, abs.Level{Ranges: parseAlts(l.Range), Lens: parseAlts(l.Length), Pats: pats})
	}
	return out
}

// TypeDescs: the type descriptors as written, keyed by schema path.
var TypeDescs = map[string]abs.TypeDesc{}

func init() {
	Sources["S6"] = s6Yang()
	for _, l := range s6Leaves {
		td := abs.TypeDesc{Base: l.Base, Levels: levelsOf(l.Levels), Members: []abs.TypeMem{}}
		for _, m := range l.Union {
			td.Members = append(td.Members, abs.TypeMem{Base: m.Base, Levels: levelsOf(m.Levels)})
		}
		TypeDescs["S6:t/"+l.Name] = td
	}
}
