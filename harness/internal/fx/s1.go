package fx

func init() {
	Sources["S1"] = `module S1 {
  namespace "urn:verif:s1";
  prefix "s1";
  revision 2024-01-01;

  container top {
    leaf n { type int32; default 5; }
    list m {
      key "name idx";
      leaf name { type string; }
      leaf idx { type int32; }
      leaf note { type string; }
      list sub {
        key "id";
        leaf id { type string; }
        leaf val { type string; default "sv"; }
      }
      choice kind {
        case a {
          leaf ka { type string; }
        }
        case b {
          container kb {
            leaf kbl { type string; default "kd"; }
          }
        }
      }
    }
    choice outer {
      case o1 {
        leaf o1l { type string; }
        choice inner {
          case i1 {
            leaf i1l { type string; }
          }
          case i2 {
            leaf i2l { type string; }
            container i2c {
              leaf z { type string; }
            }
          }
        }
      }
      container o2 {
        leaf o2l { type string; }
      }
      list o3 {
        key "k";
        leaf k { type string; }
        leaf o3v { type string; }
      }
    }
    choice second {
      leaf s1 { type string; }
      leaf s2 { type string; }
    }
  }
  leaf-list tags { type string; }
}`
}

// Go struct types for the struct-backed stores (field names follow the
// library's MetaNameToFieldName convention).

type S0Root struct {
	A  string
	C  *S0C
	L  []*S0L
	Ll []string
	P  string
	P2 string
	Q  *S0Q
}
type S0C struct {
	X string
	Y int
	D *S0D
}
type S0D struct{ Z string }
type S0L struct {
	K string
	V string
	E *S0E
}
type S0E struct{ W string }
type S0Q struct{ R string }

type S1Root struct {
	Top  *S1Top
	Tags []string
}
type S1Top struct {
	N   int
	M   []*S1M
	O1l string
	I1l string
	I2l string
	I2c *S1I2c
	O2  *S1O2
	O3  []*S1O3
	S1  string
	S2  string
}
type S1M struct {
	Name string
	Idx  int
	Note string
	Sub  []*S1Sub
	Ka   string
	Kb   *S1Kb
}
type S1Sub struct {
	Id  string
	Val string
}
type S1Kb struct{ Kbl string }
type S1I2c struct{ Z string }
type S1O2 struct{ O2l string }
type S1O3 struct {
	K   string
	O3v string
}

type M0Root struct {
	C *M0C
	L []*M0L
	P string
	Q *M0Q
}
type M0C struct {
	X string
	Y int
}
type M0L struct {
	K string
	V string
	E *M0E
}
type M0E struct{ W string }
type M0Q struct{ R string }

// NewRoot returns a pointer to an empty root struct for a fixture.
var NewRoot = map[string]func() any{
	"S0": func() any { return &S0Root{} },
	"S1": func() any { return &S1Root{} },
	"M0": func() any { return &M0Root{} },
}
