package fx

func init() {
	// S3: config false nodes, defaults, nested lists (query parameters, C07)
	Sources["S3"] = `module S3 {
  namespace "urn:verif:s3";
  prefix "s3";
  revision 2024-01-01;

  container sys {
    leaf name { type string; }
    leaf mode { type string; default "auto"; }
    leaf uptime { config false; type int32; }
    container stats {
      config false;
      leaf rx { type int32; }
      leaf tx { type int32; default 3; }
      container deep {
        leaf d { type string; }
      }
    }
    container cfg {
      leaf a { type string; default "x"; }
      leaf b { type int32; }
      container inner {
        leaf i { type string; }
        container inmost {
          leaf m { type string; default "dm"; }
        }
      }
    }
    list ifs {
      key "name";
      leaf name { type string; }
      leaf mtu { type int32; default 1500; }
      leaf oper { config false; type string; }
      list addr {
        key "ip";
        leaf ip { type string; }
        leaf pfx { type int32; }
      }
    }
  }
  list top {
    key "id";
    leaf id { type string; }
    leaf v { type string; }
  }
}`
}
