package fx

import (
	"fmt"

	"verif/internal/abs"

	"github.com/freeconf/yang/meta"
	"github.com/freeconf/yang/node"
	"github.com/freeconf/yang/nodeutil"
	"github.com/freeconf/yang/val"
)

// Capture is a harness-owned write-only node (the "capturing node" of the property
// statements): it records, in order, every Child/Next/Field write request an export
// issues and assembles the abstract tree from them.  List entries are identified by
// the key of the request, so the tree is complete even when key leaves are filtered.
type Capture struct {
	F      *Fixture
	Tree   *abs.Tree
	Events []CapEvent
	seen   map[string]int
}

type CapEvent struct {
	E string   `json:"e"` // "cont" "list" "entry" "leaf" "end"
	P abs.Path `json:"p"`
}

func NewCapture(f *Fixture) *Capture {
	return &Capture{F: f, Tree: abs.NewTree(), seen: map[string]int{}}
}

// Node returns the capturing node for the selection at path `at`.
func (c *Capture) Node(at abs.Path) node.Node {
	if len(at) > 0 && !at.IsEntry() {
		if n := c.F.DS.Node(at.SPath()); n != nil && n.Kind == "list" {
			return c.list(at)
		}
	}
	return c.container(at)
}

func (c *Capture) note(e string, p abs.Path) {
	c.Events = append(c.Events, CapEvent{E: e, P: p})
	c.seen[e+p.Key()]++
}

// Duplicates reports nodes announced more than once.
func (c *Capture) Duplicates() []string {
	var out []string
	for k, n := range c.seen {
		if n > 1 {
			out = append(out, k)
		}
	}
	return out
}

func (c *Capture) container(at abs.Path) node.Node {
	return &nodeutil.Basic{
		OnChild: func(r node.ChildRequest) (node.Node, error) {
			if !r.New {
				return nil, nil
			}
			p := at.Child(abs.S(r.Meta.Ident()))
			c.Tree.Cont = append(c.Tree.Cont, p)
			if meta.IsList(r.Meta) {
				c.note("list", p)
				c.Tree.Ord = append(c.Tree.Ord, abs.OrdItem{P: p, Keys: [][]string{}})
				return c.list(p), nil
			}
			c.note("cont", p)
			return c.container(p), nil
		},
		OnField: func(r node.FieldRequest, hnd *node.ValueHandle) error {
			if !r.Write {
				return nil
			}
			p := at.Child(abs.S(r.Meta.Ident()))
			n := c.F.DS.Node(p.SPath())
			if r.Clear || hnd.Val == nil {
				return nil
			}
			var v []string
			if n != nil {
				if n.Kind == "leaflist" {
					v = GoToLexList(n, hnd.Val.Value())
					if _, isList := hnd.Val.(val.Listable); !isList {
						v = []string{GoToLexN(n, hnd.Val.Value())}
					}
				} else {
					v = []string{GoToLexN(n, valueForLex(n, hnd.Val))}
				}
			} else {
				v = []string{hnd.Val.String()}
			}
			c.note("leaf", p)
			c.Tree.Leaf = append(c.Tree.Leaf, abs.LeafItem{P: p, V: v})
			return nil
		},
		OnChoose: func(sel *node.Selection, choice *meta.Choice) (*meta.ChoiceCase, error) {
			return nil, nil
		},
	}
}

func valueForLex(n *abs.SNode, v val.Value) any {
	switch n.Type {
	case "bits", "binary", "identityref", "enumeration":
		if n.Type == "binary" {
			return v.Value()
		}
		return v.Value()
	}
	return v.Value()
}

func (c *Capture) list(lp abs.Path) node.Node {
	return &nodeutil.Basic{
		OnNext: func(r node.ListRequest) (node.Node, []val.Value, error) {
			if !r.New {
				return nil, nil, nil
			}
			key := []string{}
			ln := c.F.DS.Node(lp.SPath())
			for i, k := range r.Key {
				if k == nil {
					key = append(key, "<nil>")
					continue
				}
				if ln != nil && i < len(ln.Keys) {
					kn := c.F.DS.Node(append(append([]string{}, ln.SP...), ln.Keys[i]))
					key = append(key, GoToLexN(kn, k.Value()))
				} else {
					key = append(key, k.String())
				}
			}
			if len(key) == 0 {
				key = []string{fmt.Sprintf("<row %d>", r.Row)}
			}
			ep := lp.Child(abs.E(lp[len(lp)-1].N, key...))
			c.note("entry", ep)
			c.Tree.Cont = append(c.Tree.Cont, ep)
			found := false
			for i := range c.Tree.Ord {
				if c.Tree.Ord[i].P.Key() == lp.Key() {
					c.Tree.Ord[i].Keys = append(c.Tree.Ord[i].Keys, key)
					found = true
				}
			}
			if !found {
				c.Tree.Ord = append(c.Tree.Ord, abs.OrdItem{P: lp, Keys: [][]string{key}})
				if !c.Tree.HasCont(lp) {
					c.Tree.Cont = append(c.Tree.Cont, lp)
				}
			}
			return c.container(ep), r.Key, nil
		},
	}
}

// Result returns the captured tree in canonical form (duplicates preserved in the
// wire form so that the evaluator sees them).
func (c *Capture) Result() *abs.Tree {
	return c.Tree.Clone()
}
