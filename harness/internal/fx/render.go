package fx

import (
	"encoding/json"
	"net/url"
	"strings"

	"verif/internal/abs"
)

// URLPath renders a data path relative to the root the way Find expects it:
// strict percent-encoding of key values, compound keys comma separated.
func URLPath(p abs.Path) string {
	var segs []string
	for i := 0; i < len(p); i++ {
		s := p[i]
		if len(s.K) > 0 {
			continue
		}
		seg := s.N
		if i+1 < len(p) && len(p[i+1].K) > 0 {
			var ks []string
			for _, k := range p[i+1].K {
				ks = append(ks, StrictEscape(k))
			}
			seg += "=" + strings.Join(ks, ",")
		}
		segs = append(segs, seg)
	}
	return strings.Join(segs, "/")
}

// StrictEscape percent-encodes everything outside ALPHA DIGIT - . _ ~
func StrictEscape(s string) string {
	var sb strings.Builder
	for _, b := range []byte(s) {
		if (b >= 'a' && b <= 'z') || (b >= 'A' && b <= 'Z') || (b >= '0' && b <= '9') || b == '-' || b == '.' || b == '_' || b == '~' {
			sb.WriteByte(b)
		} else {
			sb.WriteString(url.QueryEscape(string([]byte{b})))
			if b == ' ' {
				// QueryEscape renders a space as '+'; we want %20
				str := sb.String()
				sb.Reset()
				sb.WriteString(strings.TrimSuffix(str, "+") + "%20")
			}
		}
	}
	return sb.String()
}

// jsonValue renders a leaf value as the JSON value RFC 7951 prescribes.
func jsonValue(n *abs.SNode, lex string) any {
	typ := n.Type
	switch typ {
	case "union":
		if _, isInt := LexToGoN(n, lex).(int); isInt {
			return json.Number(lex)
		}
		return lex
	case "int8", "int16", "int32", "uint8", "uint16", "uint32":
		return json.Number(lex)
	case "int64", "uint64", "decimal64":
		return lex // RFC 7951 section 6.1: 64-bit numbers and decimal64 are JSON strings
	case "boolean":
		return lex == "true"
	case "empty":
		return []any{nil}
	}
	return lex
}

// JSONDoc renders the content of the subtree at `at` as the JSON document a
// source for an edit at that selection looks like.
func JSONDoc(f *Fixture, t *abs.Tree, at abs.Path) string {
	var obj any
	if len(at) > 0 && !at.IsEntry() && f.DS.Node(at.SPath()).Kind == "list" {
		name := at[len(at)-1].N
		obj = map[string]any{name: jsonList(f, t, at)}
	} else {
		obj = jsonObj(f, t, at)
	}
	b, _ := json.Marshal(obj)
	return string(b)
}

type ordered struct {
	keys []string
	vals []any
}

func (o ordered) MarshalJSON() ([]byte, error) {
	var sb strings.Builder
	sb.WriteByte('{')
	for i, k := range o.keys {
		if i > 0 {
			sb.WriteByte(',')
		}
		kb, _ := json.Marshal(k)
		vb, err := json.Marshal(o.vals[i])
		if err != nil {
			return nil, err
		}
		sb.Write(kb)
		sb.WriteByte(':')
		sb.Write(vb)
	}
	sb.WriteByte('}')
	return []byte(sb.String()), nil
}

func jsonObj(f *Fixture, t *abs.Tree, at abs.Path) ordered {
	var o ordered
	for _, n := range f.DS.Children(at.SPath()) {
		name := n.SP[len(n.SP)-1]
		p := at.Child(abs.S(name))
		switch n.Kind {
		case "leaf":
			if v, ok := t.LeafAt(p); ok {
				o.keys = append(o.keys, name)
				o.vals = append(o.vals, jsonValue(n, v[0]))
			}
		case "leaflist":
			if v, ok := t.LeafAt(p); ok {
				arr := []any{}
				for _, x := range v {
					arr = append(arr, jsonValue(n, x))
				}
				o.keys = append(o.keys, name)
				o.vals = append(o.vals, arr)
			}
		case "container":
			if t.HasCont(p) {
				o.keys = append(o.keys, name)
				o.vals = append(o.vals, jsonObj(f, t, p))
			}
		case "list":
			if t.HasCont(p) {
				o.keys = append(o.keys, name)
				o.vals = append(o.vals, jsonList(f, t, p))
			}
		}
	}
	return o
}

func jsonList(f *Fixture, t *abs.Tree, listPath abs.Path) []any {
	arr := []any{}
	name := listPath[len(listPath)-1].N
	for _, key := range t.OrdAt(listPath) {
		arr = append(arr, jsonObj(f, t, listPath.Child(abs.E(name, key...))))
	}
	return arr
}
