package fx

import (
	"fmt"
	"reflect"
	"sort"
	"strings"

	"verif/internal/abs"

	"github.com/freeconf/yang/node"
	"github.com/freeconf/yang/nodeutil"
	"github.com/freeconf/yang/val"
)

// StoreKind describes one node implementation bound as target/store.
type StoreKind struct {
	Name    string
	Ordered bool   // list entry order is insertion order (slice-backed)
	ListAs  string // "map" | "slice": how Build lays out lists
	Wrap    func(root any) node.Node
}

var Stores = map[string]*StoreKind{
	// legacy reflection node over maps: the suite's reference store
	"rmap": {Name: "rmap", Ordered: false, ListAs: "map", Wrap: func(root any) node.Node { return nodeutil.ReflectChild(root) }},
	// legacy reflection node, lists as slices of maps
	"rslice": {Name: "rslice", Ordered: true, ListAs: "slice", Wrap: func(root any) node.Node { return nodeutil.ReflectChild(root) }},
	// nodeutil.Node over maps
	"nmap": {Name: "nmap", Ordered: false, ListAs: "map", Wrap: func(root any) node.Node { return &nodeutil.Node{Object: root} }},
	// nodeutil.Node, lists as slices of maps
	"nslice": {Name: "nslice", Ordered: true, ListAs: "slice", Wrap: func(root any) node.Node { return &nodeutil.Node{Object: root} }},
}

var StoreNames = []string{"rmap", "rslice", "nmap", "nslice", "rstruct", "nstruct"}

func init() {
	// legacy reflection node over Go structs (lists are slices of struct pointers)
	Stores["rstruct"] = &StoreKind{Name: "rstruct", Ordered: true, ListAs: "struct", Wrap: func(root any) node.Node { return nodeutil.ReflectChild(root) }}
	// nodeutil.Node over Go structs; zero values denote "unset" (IgnoreEmpty)
	Stores["nstruct"] = &StoreKind{Name: "nstruct", Ordered: true, ListAs: "struct", Wrap: func(root any) node.Node {
		return &nodeutil.Node{Object: root, Options: nodeutil.NodeOptions{IgnoreEmpty: true}}
	}}
}

// Build constructs the Go object graph for a tree directly.
func (k *StoreKind) Build(f *Fixture, t *abs.Tree) any {
	if k.ListAs == "struct" {
		root := NewRoot[f.Name]()
		buildStruct(f, t, abs.Path{}, reflect.ValueOf(root).Elem())
		return root
	}
	root := map[string]any{}
	k.buildInto(f, t, abs.Path{}, root)
	return root
}

// BuildMapAt builds the content below `at` as a map (event payloads).
func (k *StoreKind) BuildMapAt(f *Fixture, t *abs.Tree, at abs.Path) map[string]any {
	m := map[string]any{}
	k.buildInto(f, t, at, m)
	return m
}

// buildStruct fills a struct value from the tree (struct-backed stores).
func buildStruct(f *Fixture, t *abs.Tree, at abs.Path, sv reflect.Value) {
	for _, n := range f.DS.Children(at.SPath()) {
		name := n.SP[len(n.SP)-1]
		p := at.Child(abs.S(name))
		fv := sv.FieldByName(FieldName(name))
		if !fv.IsValid() {
			panic("fixture struct " + sv.Type().String() + " has no field for " + name)
		}
		switch n.Kind {
		case "leaf":
			if v, ok := t.LeafAt(p); ok && len(v) == 1 {
				fv.Set(reflect.ValueOf(LexToGoN(n, v[0])).Convert(fv.Type()))
			}
		case "leaflist":
			if v, ok := t.LeafAt(p); ok {
				fv.Set(reflect.ValueOf(lexListToGo(n, v)).Convert(fv.Type()))
			}
		case "container":
			if t.HasCont(p) {
				c := reflect.New(fv.Type().Elem())
				buildStruct(f, t, p, c.Elem())
				fv.Set(c)
			}
		case "list":
			if !t.HasCont(p) {
				continue
			}
			sl := reflect.MakeSlice(fv.Type(), 0, 0)
			for _, key := range t.OrdAt(p) {
				e := reflect.New(fv.Type().Elem().Elem())
				buildStruct(f, t, p.Child(abs.E(name, key...)), e.Elem())
				sl = reflect.Append(sl, e)
			}
			fv.Set(sl)
		}
	}
}

func (k *StoreKind) buildInto(f *Fixture, t *abs.Tree, at abs.Path, m map[string]any) {
	sp := at.SPath()
	for _, n := range f.DS.Children(sp) {
		name := n.SP[len(n.SP)-1]
		p := at.Child(abs.S(name))
		switch n.Kind {
		case "leaf":
			if v, ok := t.LeafAt(p); ok && len(v) == 1 {
				m[name] = LexToGoN(n, v[0])
			}
		case "leaflist":
			if v, ok := t.LeafAt(p); ok {
				m[name] = lexListToGo(n, v)
			}
		case "container":
			if t.HasCont(p) {
				c := map[string]any{}
				k.buildInto(f, t, p, c)
				m[name] = c
			}
		case "list":
			if !t.HasCont(p) {
				continue
			}
			keys := t.OrdAt(p)
			// map-backed lists hold single-key lists only (documented limitation of the
			// library's map handlers): compound-key lists are laid out as slices
			// (a binary key is a byte slice, which no Go map can be keyed by: slices as well)
			binKey := len(n.Keys) == 1 && f.DS.Node(append(append([]string{}, n.SP...), n.Keys[0])).Type == "binary"
			if k.ListAs == "slice" || len(n.Keys) > 1 || binKey {
				l := []map[string]any{}
				for _, key := range keys {
					e := map[string]any{}
					k.buildInto(f, t, p.Child(abs.E(name, key...)), e)
					l = append(l, e)
				}
				m[name] = l
			} else {
				kn := f.DS.Node(append(append([]string{}, n.SP...), n.Keys[0]))
				kt := kn.Type
				l := newListMap(kt)
				for _, key := range keys {
					e := map[string]any{}
					k.buildInto(f, t, p.Child(abs.E(name, key...)), e)
					l.SetMapIndex(reflect.ValueOf(LexToGoN(kn, key[0])), reflect.ValueOf(e))
				}
				m[name] = l.Interface()
			}
		}
	}
}

// the map type the library itself creates for a list with this key type
func newListMap(keyType string) reflect.Value {
	switch keyType {
	case "string":
		return reflect.ValueOf(map[string]any{})
	case "int32":
		return reflect.ValueOf(map[int]any{})
	case "int64":
		return reflect.ValueOf(map[int64]any{})
	case "decimal64":
		return reflect.ValueOf(map[float64]any{})
	}
	return reflect.ValueOf(map[any]any{})
}

func lexListToGo(n *abs.SNode, vs []string) any {
	// what the library stores for these leaf-lists: Value() of the list value
	switch n.Type {
	case "enumeration":
		l := val.EnumList{}
		for _, v := range vs {
			l = append(l, LexToGoN(n, v).(val.Enum))
		}
		return l
	case "identityref":
		l := val.IdentRefList{}
		for _, v := range vs {
			l = append(l, LexToGoN(n, v).(val.IdentRef))
		}
		return l
	}
	if len(vs) == 0 {
		return reflect.MakeSlice(reflect.SliceOf(reflect.TypeOf(LexToGoN(n, "0"))), 0, 0).Interface()
	}
	first := LexToGoN(n, vs[0])
	sl := reflect.MakeSlice(reflect.SliceOf(reflect.TypeOf(first)), 0, len(vs))
	for _, v := range vs {
		sl = reflect.Append(sl, reflect.ValueOf(LexToGoN(n, v)))
	}
	return sl.Interface()
}

func unwrap(v reflect.Value) reflect.Value {
	for v.IsValid() && (v.Kind() == reflect.Interface || v.Kind() == reflect.Ptr) {
		if v.IsNil() {
			return reflect.Value{}
		}
		v = v.Elem()
	}
	return v
}

func mapGet(m reflect.Value, name string) reflect.Value {
	if m.Kind() != reflect.Map {
		return reflect.Value{}
	}
	kt := m.Type().Key()
	var kv reflect.Value
	switch kt.Kind() {
	case reflect.String:
		kv = reflect.ValueOf(name)
	case reflect.Interface:
		kv = reflect.ValueOf(name)
	default:
		return reflect.Value{}
	}
	return m.MapIndex(kv)
}

// Project reads the object graph back into an abstract tree, directly.
func (k *StoreKind) Project(f *Fixture, root any) *abs.Tree {
	t := abs.NewTree()
	projectInto(f, t, abs.Path{}, unwrap(reflect.ValueOf(root)))
	return t.Canon()
}

func projectInto(f *Fixture, t *abs.Tree, at abs.Path, m reflect.Value) {
	sp := at.SPath()
	for _, n := range f.DS.Children(sp) {
		name := n.SP[len(n.SP)-1]
		p := at.Child(abs.S(name))
		var raw reflect.Value
		if m.Kind() == reflect.Struct {
			raw = m.FieldByName(FieldName(name))
		} else {
			raw = mapGet(m, name)
		}
		if !raw.IsValid() {
			continue
		}
		if (raw.Kind() == reflect.Interface || raw.Kind() == reflect.Ptr || raw.Kind() == reflect.Map || raw.Kind() == reflect.Slice) && raw.IsNil() {
			continue
		}
		v := unwrap(raw)
		if !v.IsValid() {
			continue
		}
		if m.Kind() == reflect.Struct && (n.Kind == "leaf" || n.Kind == "leaflist") && v.IsZero() {
			continue // struct-backed stores: the zero value denotes an unset leaf
		}
		switch n.Kind {
		case "leaf":
			t.Leaf = append(t.Leaf, abs.LeafItem{P: p, V: []string{GoToLexN(n, v.Interface())}})
		case "leaflist":
			// YANG has no empty leaf-list: zero elements = the leaf-list does not exist
			if vs := GoToLexList(n, v.Interface()); len(vs) > 0 {
				t.Leaf = append(t.Leaf, abs.LeafItem{P: p, V: vs})
			}
		case "container":
			t.Cont = append(t.Cont, p)
			projectInto(f, t, p, v)
		case "list":
			t.Cont = append(t.Cont, p)
			ord := abs.OrdItem{P: p, Keys: [][]string{}}
			addEntry := func(e reflect.Value, mapKey *reflect.Value) {
				e = unwrap(e)
				if !e.IsValid() {
					return
				}
				var key []string
				if mapKey != nil {
					// identity of a map-backed entry is its map key (single key lists)
					kn := f.DS.Node(append(append([]string{}, n.SP...), n.Keys[0]))
					key = []string{GoToLexN(kn, mapKey.Interface())}
				} else {
					for _, kn := range n.Keys {
						var kv reflect.Value
						if e.Kind() == reflect.Struct {
							kv = e.FieldByName(FieldName(kn))
						} else {
							kv = mapGet(e, kn)
						}
						kv = unwrap(kv)
						if kv.IsValid() {
							key = append(key, GoToLexN(f.DS.Node(append(append([]string{}, n.SP...), kn)), kv.Interface()))
						} else {
							key = append(key, "<unset>")
						}
					}
				}
				ep := p.Child(abs.E(name, key...))
				t.Cont = append(t.Cont, ep)
				ord.Keys = append(ord.Keys, key)
				projectInto(f, t, ep, e)
			}
			switch v.Kind() {
			case reflect.Map:
				ord.U = true
				mks := v.MapKeys()
				sort.Slice(mks, func(i, j int) bool { return fmt.Sprint(mks[i].Interface()) < fmt.Sprint(mks[j].Interface()) })
				for _, mk := range mks {
					mk := mk
					addEntry(v.MapIndex(mk), &mk)
				}
			case reflect.Slice:
				for i := 0; i < v.Len(); i++ {
					addEntry(v.Index(i), nil)
				}
			}
			t.Ord = append(t.Ord, ord)
		}
	}
}

// FieldName is the library's yang-ident -> Go field convention (MetaNameToFieldName).
func FieldName(ident string) string {
	parts := strings.Split(ident, "-")
	for i, p := range parts {
		if p != "" {
			parts[i] = strings.ToUpper(p[:1]) + p[1:]
		}
	}
	return strings.Join(parts, "")
}
