package fx

func init() {
	Sources["S0"] = `module S0 {
  namespace "urn:verif:s0";
  prefix "s0";
  revision 2024-01-01;

  leaf a { type string; default "da"; }
  container c {
    leaf x { type string; }
    leaf y { type int32; default 7; }
    container d {
      leaf z { type string; }
    }
  }
  list l {
    key "k";
    leaf k { type string; }
    leaf v { type string; default "dv"; }
    container e {
      leaf w { type string; }
    }
  }
  leaf-list ll { type string; }
  choice ch {
    case one {
      leaf p { type string; }
      leaf p2 { type string; }
    }
    case two {
      container q {
        leaf r { type string; }
      }
    }
  }
}`
}
