package fx

func init() {
	Extra["S2i"] = `module S2i {
  namespace "urn:verif:s2i";
  prefix "i";
  revision 2024-01-01;
  identity ibase;
  identity iderived { base ibase; }
  identity ideeper { base iderived; }
}`
	// S2: one leaf (and some leaf-lists) per built-in type, typedef chains, and lists
	// keyed by different types
	Sources["S2"] = `module S2 {
  namespace "urn:verif:s2";
  prefix "s2";
  import S2i { prefix i; }
  revision 2024-01-01;

  identity local { base i:ibase; }

  typedef percent { type uint8 { range "0..100"; } }
  typedef small { type percent { range "10..20"; } }
  typedef en-t {
    type enumeration {
      enum zeta { value 0; }
      enum one;
      enum alpha { value 5; }
      enum big { value 70000; }
    }
  }

  container v {
    leaf i8 { type int8; }
    leaf i16 { type int16; }
    leaf i32 { type int32; }
    leaf i64 { type int64; }
    leaf u8 { type uint8; }
    leaf u16 { type uint16; }
    leaf u32 { type uint32; }
    leaf u64 { type uint64; }
    leaf dec { type decimal64 { fraction-digits 2; } }
    leaf dec9 { type decimal64 { fraction-digits 9; } }
    leaf b { type boolean; }
    leaf s { type string; }
    leaf bin { type binary; }
    leaf e { type empty; }
    leaf en { type en-t; }
    leaf bt {
      type bits {
        bit b0 { position 0; }
        bit b1;
        bit b5 { position 5; }
      }
    }
    leaf idr { type identityref { base i:ibase; } }
    leaf un { type union { type int32; type string; } }
    leaf lr { type leafref { path "../s"; } }
    leaf pc { type percent; }
    leaf sm { type small; }
    leaf-list lls { type string; }
    leaf-list lli32 { type int32; }
    leaf-list llu64 { type uint64; }
    leaf-list llen { type en-t; }
    leaf-list llb { type boolean; }
    leaf-list lldec { type decimal64 { fraction-digits 2; } }
  }
  list k8 { key "k"; leaf k { type int8; } leaf n { type string; } }
  list ku8 { key "k"; leaf k { type uint8; } leaf n { type string; } }
  list k32 { key "k"; leaf k { type int32; } leaf n { type string; } }
  list k64 { key "k"; leaf k { type int64; } leaf n { type string; } }
  list ku64 { key "k"; leaf k { type uint64; } leaf n { type string; } }
  list ks { key "k"; leaf k { type string; } leaf n { type string; } }
  list ken { key "k"; leaf k { type en-t; } leaf n { type string; } }
  list kb { key "k"; leaf k { type boolean; } leaf n { type string; } }
  list kd { key "k"; leaf k { type decimal64 { fraction-digits 9; } } leaf n { type string; } }
  list kk { key "a b"; leaf a { type uint16; } leaf b { type string; } leaf n { type string; } }
}`
}
