package fx

func init() {
	// S8: a list whose rows hold a leaf of every built-in type (where / filter expressions over rows
	// compare typed values with literals), a leaf-list or two and a container
	Sources["S8"] = `module S8 {
  namespace "urn:verif:s8";
  prefix "s8";
  revision 2024-01-01;
  identity ibase;
  identity d1 { base ibase; }
  list t {
    key "k";
    leaf k { type string; }
    leaf i8 { type int8; }
    leaf i32 { type int32; }
    leaf i64 { type int64; }
    leaf u8 { type uint8; }
    leaf u64 { type uint64; }
    leaf dec { type decimal64 { fraction-digits 2; } }
    leaf b { type boolean; }
    leaf s { type string; }
    leaf en { type enumeration { enum zeta { value 0; } enum one; enum alpha { value 5; } } }
    leaf bt { type bits { bit b0 { position 0; } bit b1; bit b5 { position 5; } } }
    leaf bin { type binary; }
    leaf e { type empty; }
    leaf idr { type identityref { base ibase; } }
    leaf un { type union { type int32; type string; } }
    leaf-list lls { type string; }
    leaf-list lli { type int32; }
    container c {
      leaf ci { type int32; }
      leaf cs { type string; }
    }
  }
}`
}
