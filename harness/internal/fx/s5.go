package fx

func init() {
	// S5: when on container / leaf / list-entry leaf / augment, operands of every type,
	// a list for where, a notification for filter (C16)
	Sources["S5"] = `module S5 {
  namespace "urn:verif:s5";
  prefix "s5";
  revision 2024-01-01;

  typedef lvl {
    type enumeration {
      enum zeta { value 0; }
      enum one;
      enum alpha { value 5; }
      enum big { value 70000; }
    }
  }

  container cw {
    when "mode='a'";
    leaf mode { type string; }
    leaf a { type string; }
    container deep {
      leaf dd { type string; }
    }
  }
  container lw {
    leaf sel { type int32; }
    leaf u8 { type uint8; }
    leaf u64 { type uint64; }
    leaf i64 { type int64; }
    leaf i8 { type int8; }
    leaf flag { type boolean; }
    leaf lv { type lvl; }
    leaf name { type string; default "b"; }
    leaf dc { type decimal64 { fraction-digits 2; } }
    leaf zdc { when "dc>1"; type string; }
    leaf zde { when "dc=1.5"; type string; }
    leaf x { when "sel>5"; type string; }
    leaf y { when "sel<=5"; type string; }
    leaf zu8 { when "u8>=128"; type string; }
    leaf zu64 { when "u64>9223372036854775807"; type string; }
    leaf zi64 { when "i64<0"; type string; }
    leaf zi8 { when "i8!=127"; type string; }
    leaf zb { when "flag='true'"; type string; }
    leaf zl { when "lv='alpha'"; type string; }
    leaf zn { when "name<'b'"; type string; }
    leaf zd { when "name='b'"; type string; }
    container inner {
      leaf lim { type int32; }
      leaf g { when "lim>=10"; type string; }
    }
  }
  list lst {
    key "k";
    leaf k { type string; }
    leaf v { type int32; }
    leaf t { type string; }
    leaf big { type uint64; }
    leaf d { type decimal64 { fraction-digits 2; } }
    leaf w { when "v!=3"; type string; }
    list sub {
      key "sk";
      leaf sk { type string; }
      leaf v { type int32; }
      leaf other { type string; }
    }
    container pc {
      when "pv>1";
      leaf pv { type int32; }
      leaf pa { type string; }
    }
  }
  grouping gw {
    leaf gl { type string; }
    container gc {
      leaf gcl { type string; }
    }
  }
  container uw {
    leaf on { type string; }
    uses gw {
      when "on='a'";
    }
  }
  augment "/lw/inner" {
    when "lim>=10";
    leaf augl { type string; }
  }
  augment "/lw" {
    when "sel>5";
    container augc {
      leaf ac { type string; }
      leaf sel { type int32; }
    }
    list augls {
      key "k";
      leaf k { type string; }
      leaf av { type string; }
    }
  }
  notification evt {
    leaf level { type int32; }
    leaf who { type string; }
    leaf cnt { type uint64; }
    leaf ratio { type decimal64 { fraction-digits 2; } }
  }
}`
}
