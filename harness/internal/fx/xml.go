package fx

import (
	"fmt"

	"verif/internal/abs"

	"github.com/freeconf/yang/node"
)

// XMLSource is filled in by the XML codec driver.
var XMLSource = func(f *Fixture, s *abs.Tree, at abs.Path) (node.Node, error) {
	return nil, fmt.Errorf("xml source not available")
}
