// Package fx holds the fixture schemas of the data-layer checks, the export
// of a compiled module into the abstract data schema, and the store kinds:
// for each kind Build(tree) constructs the Go object graph directly (not
// through the library) and Project(obj) reads it back directly.
package fx

import (
	"encoding/base64"
	"encoding/json"
	"math/big"
	"strconv"
	"fmt"
	"io"
	"os"
	"path/filepath"
	"reflect"
	"regexp"
	"sort"
	"strings"
	"sync"

	"verif/internal/abs"
	"verif/internal/core"

	"github.com/freeconf/yang/meta"
	"github.com/freeconf/yang/parser"
	"github.com/freeconf/yang/source"
	"github.com/freeconf/yang/val"
)

// Fixture is a compiled fixture schema with its abstract description.
type Fixture struct {
	drifted bool
	Name   string
	Yang   string
	Module *meta.Module
	DS     abs.Schema // as exported from the compiled module
	DSFile string     // spec/<name>.json (committed; the specification's constant)
}

var (
	fxMu    sync.Mutex
	fxCache = map[string]*Fixture{}
)

// Sources maps fixture name -> YANG text of the main module; Extra holds
// imported modules / submodules by name.
var Sources = map[string]string{}
var Extra = map[string]string{}

// Opener serves the fixture modules and what they import / include.
func Opener() source.Opener { return opener() }

func opener() source.Opener {
	return func(name string, ext string) (io.Reader, error) {
		if y, ok := Extra[name]; ok {
			return strings.NewReader(y), nil
		}
		if y, ok := Sources[name]; ok {
			return strings.NewReader(y), nil
		}
		return nil, nil
	}
}

// Load compiles the fixture and checks that it projects to the committed
// abstract schema (spec/<name>.json), the constant the specification uses.
func Load(name string) (*Fixture, error) {
	fxMu.Lock()
	defer fxMu.Unlock()
	if f, ok := fxCache[name]; ok {
		return f, nil
	}
	y, ok := Sources[name]
	if !ok {
		return nil, fmt.Errorf("no fixture %s", name)
	}
	m, err := parser.LoadModuleFromString(opener(), y)
	if err != nil {
		return nil, fmt.Errorf("fixture %s does not load: %w", name, err)
	}
	f := &Fixture{Name: name, Yang: y, Module: m, DSFile: filepath.Join(core.VerifDir, "spec", name+".json")}
	f.DS = ExportSchema(m)
	for i := range f.DS {
		// type descriptors "as written" come from the fixture's own table, not from the
		// compiled module (whose derivation is the subject of C02 / C05)
		if td, ok := TypeDescs[name+":"+strings.Join(f.DS[i].SP, "/")]; ok {
			f.DS[i].T = td
		}
	}
	fxCache[name] = f
	return f, nil
}

// CheckDS compares the exported schema with the committed constant.
func (f *Fixture) CheckDS() error {
	b, err := os.ReadFile(f.DSFile)
	if err != nil {
		return fmt.Errorf("committed abstract schema missing: %v", err)
	}
	var want abs.Schema
	if err := json.Unmarshal(b, &want); err != nil {
		return err
	}
	got, _ := json.Marshal(f.DS)
	wb, _ := json.Marshal(want)
	if string(got) != string(wb) && !f.drifted {
		// The declared constant is what the specification is evaluated with; the harness
		// now works from it as well, so that what the real code does with the fixture is
		// judged against the declared schema (a change to how the library compiles the
		// fixture then shows as disallowed records, not as a refusal to run).
		f.drifted = true
		first := ""
		for i := range want {
			a, _ := json.Marshal(want[i])
			var b []byte
			if i < len(f.DS) {
				b, _ = json.Marshal(f.DS[i])
			}
			if string(a) != string(b) {
				first = fmt.Sprintf("declared %.300s / compiled %.300s", a, b)
				break
			}
		}
		fmt.Fprintf(os.Stderr, "NOTE: fixture %s: the schema read through the accessors differs from the declared constant %s (%d / %d nodes; first: %s); the declared constant is used\n", f.Name, f.DSFile, len(f.DS), len(want), first)
		f.DS = want
	}
	return nil
}

// WriteDS (re)generates the committed constant; only used by `vcheck gen`.
func (f *Fixture) WriteDS() error {
	b, _ := json.MarshalIndent(f.DS, "", " ")
	return os.WriteFile(f.DSFile, append(b, '\n'), 0o644)
}

// ExportSchema flattens the compiled data tree: choices and cases are folded
// into the `cases` chain of each data node.
func ExportSchema(m *meta.Module) abs.Schema {
	var out abs.Schema
	var walk func(parent meta.HasDataDefinitions, sp []string, chain []abs.CaseRef, chPath string)
	walk = func(parent meta.HasDataDefinitions, sp []string, chain []abs.CaseRef, chPath string) {
		for _, d := range parent.DataDefinitions() {
			switch x := d.(type) {
			case *meta.Choice:
				id := strings.Join(append(append([]string{}, sp...), chPath+x.Ident()), "/")
				for _, cid := range x.CaseIdents() {
					cs := x.Cases()[cid]
					nc := append(append([]abs.CaseRef{}, chain...), abs.CaseRef{Ch: id, Cs: cs.Ident(), D: len(sp)})
					walk(cs, sp, nc, chPath+x.Ident()+":"+cs.Ident()+":")
				}
			case *meta.Container, *meta.List, *meta.Leaf, *meta.LeafList:
				n := abs.SNode{SP: append(append([]string{}, sp...), d.Ident()), Keys: []string{}, Dflt: []string{}, Cases: append([]abs.CaseRef{}, chain...), Enums: []abs.EnumDef{}, Bases: []string{},
					T: abs.TypeDesc{Levels: []abs.Level{}, Members: []abs.TypeMem{}}}
				if n.Cases == nil {
					n.Cases = []abs.CaseRef{}
				}
				n.Module = meta.OriginalModule(d).Ident()
				if hd, ok := d.(meta.HasDetails); ok {
					n.Config = hd.Config()
				}
				n.WhenP = abs.Cond{Path: []string{}}
				if hw, ok := d.(meta.HasWhen); ok && hw.When() != nil {
					n.When = hw.When().Expression()
					n.WhenP = ParseCond(n.When)
					// RFC 7950 7.21.5: a when written on a uses / augment is evaluated on the
					// node holding the uses / the augmented node; a leaf's own when on its
					// parent (as the repository's tests fix it); a container's own on itself
					n.WhenP.Ctx = "self"
					if hw.When().OnParent() {
						n.WhenP.Ctx = "parent"
					}
					if _, isLeaf := d.(meta.Leafable); isLeaf {
						n.WhenP.Ctx = "parent"
					}
				}
				switch y := d.(type) {
				case *meta.Container:
					n.Kind = "container"
				case *meta.List:
					n.Kind = "list"
					for _, k := range y.KeyMeta() {
						n.Keys = append(n.Keys, k.Ident())
					}
				case *meta.Leaf:
					n.Kind = "leaf"
					n.Type = TypeName(y.Type())
					if y.HasDefault() {
						n.Dflt = []string{fmt.Sprint(y.DefaultValue())}
					}
					typeTables(&n, y.Type())
				case *meta.LeafList:
					n.Kind = "leaflist"
					n.Type = TypeName(y.Type())
					if y.HasDefault() {
						n.Dflt = append([]string{}, y.Default()...)
					}
					typeTables(&n, y.Type())
				}
				out = append(out, n)
				if h, ok := d.(meta.HasDataDefinitions); ok {
					walk(h, n.SP, n.Cases, "")
				}
			}
		}
	}
	walk(m, []string{}, nil, "")
	// notifications: their content is described like a container's (kind "notification":
	// no store holds them, the event drivers build payloads from it)
	for _, nt := range sortedNotifs(m) {
		n := abs.SNode{SP: []string{nt.Ident()}, Kind: "notification", Keys: []string{}, Dflt: []string{}, Cases: []abs.CaseRef{}, Enums: []abs.EnumDef{}, Bases: []string{},
			Module: meta.OriginalModule(nt).Ident(), Config: false, WhenP: abs.Cond{Path: []string{}}, T: abs.TypeDesc{Levels: []abs.Level{}, Members: []abs.TypeMem{}}}
		out = append(out, n)
		walk(nt, n.SP, n.Cases, "")
	}
	return out
}

func sortedNotifs(m *meta.Module) []*meta.Notification {
	var names []string
	for name := range m.Notifications() {
		names = append(names, name)
	}
	sort.Strings(names)
	var out []*meta.Notification
	for _, name := range names {
		out = append(out, m.Notifications()[name])
	}
	return out
}

func typeTables(n *abs.SNode, t *meta.Type) {
	for _, e := range t.Enums() {
		n.Enums = append(n.Enums, abs.EnumDef{L: e.Ident(), V: e.Value()})
	}
	for _, b := range t.Bits() {
		n.Enums = append(n.Enums, abs.EnumDef{L: b.Ident(), V: b.Position})
	}
	var walk func(ids []*meta.Identity)
	seen := map[string]bool{}
	walk = func(ids []*meta.Identity) {
		for _, id := range ids {
			if !seen[id.Ident()] {
				seen[id.Ident()] = true
				n.Bases = append(n.Bases, id.Ident())
				var derived []*meta.Identity
				for _, d := range id.DerivedDirect() {
					derived = append(derived, d)
				}
				walk(derived)
			}
		}
	}
	walk(t.Base())
	sort.Strings(n.Bases)
}

var condRe = regexp.MustCompile(`^\s*([A-Za-z0-9_\-/]+)\s*(<=|>=|!=|=|<|>)\s*(?:'([^']*)'|"([^"]*)"|(-?[0-9.]+))\s*$`)

// ParseCond takes a comparison of the XPath subset apart (the fixtures only use this
// form); anything else yields On = false.
func ParseCond(expr string) abs.Cond {
	m := condRe.FindStringSubmatch(expr)
	if m == nil {
		return abs.Cond{Path: []string{}}
	}
	lit := m[3] + m[4] + m[5]
	return abs.Cond{On: true, Path: strings.Split(m[1], "/"), Op: m[2], Lit: lit}
}

// TypeName is the built-in base type as the harness needs it for value mapping.
func TypeName(t *meta.Type) string {
	return strings.TrimSuffix(t.Format().Single().String(), "-list")
}

// FindMeta returns the schema definition for a schema path.
func (f *Fixture) FindMeta(sp []string) meta.Definition {
	var cur meta.HasDataDefinitions = f.Module
	var found meta.Definition
	for _, name := range sp {
		found = findIn(cur, name)
		if found == nil {
			return nil
		}
		if h, ok := found.(meta.HasDataDefinitions); ok {
			cur = h
		}
	}
	return found
}

func findIn(p meta.HasDataDefinitions, name string) meta.Definition {
	for _, d := range p.DataDefinitions() {
		if ch, ok := d.(*meta.Choice); ok {
			for _, cid := range ch.CaseIdents() {
				if x := findIn(ch.Cases()[cid], name); x != nil {
					return x
				}
			}
			continue
		}
		if d.Ident() == name {
			return d
		}
	}
	return nil
}

// ---------------------------------------------------------------- values

// LexToGoN converts a canonical lexical form to the Go value a map-backed store holds
// for that leaf (what the library itself writes: hnd.Val.Value()).
func LexToGoN(n *abs.SNode, s string) any {
	switch n.Type {
	case "enumeration":
		for _, e := range n.Enums {
			if e.L == s {
				return val.Enum{Id: e.V, Label: e.L}
			}
		}
		return val.Enum{Id: -1, Label: s}
	case "bits":
		var pos uint64
		for _, l := range strings.Fields(s) {
			for _, e := range n.Enums {
				if e.L == l {
					pos |= 1 << uint(e.V)
				}
			}
		}
		return pos
	case "identityref":
		return val.IdentRef{Label: s}
	case "binary":
		b, _ := base64.StdEncoding.DecodeString(s)
		return b
	case "empty":
		return val.NotEmpty
	case "union":
		var i int
		if _, err := fmt.Sscanf(s, "%d", &i); err == nil && fmt.Sprint(i) == s {
			return i
		}
		return s
	}
	return LexToGo(n.Type, s)
}

// GoToLexN renders what a store holds for a leaf in canonical lexical form.
func GoToLexN(n *abs.SNode, v any) string {
	switch n.Type {
	case "bits":
		rv := reflect.ValueOf(v)
		if rv.CanUint() || rv.CanInt() {
			var pos uint64
			if rv.CanUint() {
				pos = rv.Uint()
			} else {
				pos = uint64(rv.Int())
			}
			var labels []string
			es := append([]abs.EnumDef{}, n.Enums...)
			sort.Slice(es, func(i, j int) bool { return es[i].V < es[j].V })
			for _, e := range es {
				if pos&(1<<uint(e.V)) != 0 {
					labels = append(labels, e.L)
					pos &^= 1 << uint(e.V)
				}
			}
			if pos != 0 {
				labels = append(labels, fmt.Sprintf("?undeclared-bits-%d", pos))
			}
			return strings.Join(labels, " ")
		}
	case "binary":
		if b, ok := v.([]byte); ok {
			return base64.StdEncoding.EncodeToString(b)
		}
	case "empty":
		return ""
	case "decimal64":
		if f, ok := v.(float64); ok {
			r := new(big.Rat)
			if r.SetFloat64(f) != nil {
				return CanonNumeral(strconv.FormatFloat(f, 'f', -1, 64))
			}
		}
	case "enumeration":
		rv := reflect.ValueOf(v)
		if rv.CanInt() {
			for _, e := range n.Enums {
				if int64(e.V) == rv.Int() {
					return e.L
				}
			}
		}
	}
	return GoToLex(v)
}

// CanonNumeral renders a decimal numeral canonically (no trailing zeros).
func CanonNumeral(s string) string {
	r, ok := new(big.Rat).SetString(strings.TrimSpace(s))
	if !ok {
		return s
	}
	if r.IsInt() {
		return r.Num().String()
	}
	for d := 1; d <= 20; d++ {
		x := r.FloatString(d)
		if back, ok := new(big.Rat).SetString(x); ok && back.Cmp(r) == 0 {
			return x
		}
	}
	return r.FloatString(20)
}

// LexToGo converts the canonical lexical form to the Go value a map/struct
// store holds for that leaf type.
func LexToGo(typ string, s string) any {
	switch typ {
	case "string", "binary", "leafref", "union", "identityref", "enumeration":
		return s
	case "boolean":
		return s == "true"
	case "int8", "int16", "int32", "int64", "uint8", "uint16", "uint32", "uint64":
		var n int64
		var u uint64
		if strings.HasPrefix(typ, "u") {
			fmt.Sscan(s, &u)
			switch typ {
			case "uint8":
				return uint8(u)
			case "uint16":
				return uint16(u)
			case "uint32":
				return uint(u)
			}
			return u
		}
		fmt.Sscan(s, &n)
		switch typ {
		case "int8":
			return int8(n)
		case "int16":
			return int16(n)
		case "int32":
			return int(n)
		}
		return n
	case "decimal64":
		var f float64
		fmt.Sscan(s, &f)
		return f
	}
	return s
}

// GoToLex renders any Go value a store may hold in canonical lexical form.
func GoToLex(v any) string {
	switch x := v.(type) {
	case nil:
		return "<nil>"
	case string:
		return x
	case fmt.Stringer:
		return x.String()
	}
	rv := reflect.ValueOf(v)
	switch {
	case rv.Kind() == reflect.Struct && rv.NumField() > 0 && rv.Type().Name() == "Enum":
		return rv.FieldByName("Label").String()
	case rv.Kind() == reflect.Struct && rv.Type().Name() == "IdentRef":
		return rv.FieldByName("Label").String()
	}
	return fmt.Sprint(v)
}

// GoToLexList renders a leaf-list value as a sequence of lexical forms.
func GoToLexList(n *abs.SNode, v any) []string {
	rv := reflect.ValueOf(v)
	if rv.IsValid() && rv.Kind() == reflect.Slice && !(n.Type == "binary" && rv.Type().Elem().Kind() == reflect.Uint8) {
		out := []string{}
		for i := 0; i < rv.Len(); i++ {
			out = append(out, GoToLexN(n, rv.Index(i).Interface()))
		}
		return out
	}
	return []string{GoToLexN(n, v)}
}

func sortedKeys(m map[string]any) []string {
	var ks []string
	for k := range m {
		ks = append(ks, k)
	}
	sort.Strings(ks)
	return ks
}
