package fx

func init() {
	Extra["S4g"] = `module S4g {
  namespace "urn:verif:s4g";
  prefix "g";
  revision 2024-01-01;
  grouping shared {
    leaf gleaf { type string; }
    container gcont {
      leaf inner { type string; }
      list glist {
        key "id";
        leaf id { type string; }
        leaf gv { type string; }
      }
    }
  }
}`
	// S4: nodes whose defining module differs from their parent's (imported grouping):
	// JSON member qualification and XML namespaces change inside the tree
	Sources["S4"] = `module S4 {
  namespace "urn:verif:s4";
  prefix "s4";
  import S4g { prefix g; }
  revision 2024-01-01;

  container top {
    leaf own { type string; }
    uses g:shared;
    container local {
      leaf l1 { type string; }
      uses g:shared;
    }
  }
  list items {
    key "name";
    leaf name { type string; }
    uses g:shared;
  }
}`
}
