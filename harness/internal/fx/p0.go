package fx

func init() {
	// P0: a choice-free fixture with string leaves only (besides an int32 list key), for
	// the legacy struct-backed Reflect node: it implements no case detection, and a Go
	// int field cannot represent an unset leaf.
	Sources["P0"] = `module P0 {
  namespace "urn:verif:p0";
  prefix "p0";
  revision 2024-01-01;

  leaf a { type string; default "da"; }
  container c {
    leaf x { type string; }
    leaf y { type string; default "dy"; }
    container d {
      leaf z { type string; }
    }
    list n {
      key "id";
      leaf id { type int32; }
      leaf t { type string; }
    }
  }
  list l {
    key "k";
    leaf k { type string; }
    leaf v { type string; default "dv"; }
    container e {
      leaf w { type string; }
    }
    list g {
      key "a b";
      leaf a { type string; }
      leaf b { type string; }
      leaf h { type string; default "dh"; }
    }
  }
  leaf-list ll { type string; }
}`
	NewRoot["P0"] = func() any { return &P0Root{} }
}

type P0Root struct {
	A  string
	C  *P0C
	L  []*P0L
	Ll []string
}
type P0C struct {
	X string
	Y string
	D *P0D
	N []*P0N
}
type P0D struct{ Z string }
type P0N struct {
	Id int
	T  string
}
type P0L struct {
	K string
	V string
	E *P0E
	G []*P0G
}
type P0E struct{ W string }
type P0G struct {
	A string
	B string
	H string
}
