// Package djson drives the JSON writer and reader (C04 C15): it writes a
// selection with every writer configuration, decodes the bytes with the
// standard library into the abstract document of spec/FcJson.tla, feeds the
// text back through the library's reader, and sweeps output stream faults.
package djson

import (
	"bytes"
	"encoding/json"
	"fmt"
	"io"
	"strings"

	"verif/internal/abs"
	"verif/internal/core"
	"verif/internal/dedit"
	"verif/internal/fx"
	"verif/internal/gen"

	"github.com/freeconf/yang/node"
	"github.com/freeconf/yang/nodeutil"
)

func init() {
	core.Executors["jsonw"] = execJSONW
}

// Doc is a node of the abstract document.
type Doc struct {
	T string   `json:"t"`
	M []Member `json:"m"`
	E []Doc    `json:"e"`
	S string   `json:"s"`
}

type Member struct {
	K string `json:"k"`
	V Doc    `json:"v"`
}

func mk(t string) Doc { return Doc{T: t, M: []Member{}, E: []Doc{}} }

// ParseDoc decodes exactly one JSON value followed by EOF.
func ParseDoc(text string) Doc {
	dec := json.NewDecoder(strings.NewReader(text))
	dec.UseNumber()
	d, err := parseValue(dec)
	if err != nil {
		return mk("invalid")
	}
	if _, err := dec.Token(); err != io.EOF {
		return mk("invalid")
	}
	// encoding/json's token stream accepts some malformed separators; a strict
	// validity check settles well-formedness
	if !json.Valid([]byte(text)) {
		return mk("invalid")
	}
	return d
}

func parseValue(dec *json.Decoder) (Doc, error) {
	tok, err := dec.Token()
	if err != nil {
		return Doc{}, err
	}
	switch x := tok.(type) {
	case json.Delim:
		switch x {
		case '{':
			d := mk("obj")
			for dec.More() {
				kt, err := dec.Token()
				if err != nil {
					return Doc{}, err
				}
				k, ok := kt.(string)
				if !ok {
					return Doc{}, fmt.Errorf("member name is not a string")
				}
				v, err := parseValue(dec)
				if err != nil {
					return Doc{}, err
				}
				d.M = append(d.M, Member{K: k, V: v})
			}
			if _, err := dec.Token(); err != nil {
				return Doc{}, err
			}
			return d, nil
		case '[':
			d := mk("arr")
			for dec.More() {
				v, err := parseValue(dec)
				if err != nil {
					return Doc{}, err
				}
				d.E = append(d.E, v)
			}
			if _, err := dec.Token(); err != nil {
				return Doc{}, err
			}
			return d, nil
		}
		return Doc{}, fmt.Errorf("unexpected delimiter")
	case string:
		d := mk("str")
		d.S = x
		return d, nil
	case json.Number:
		d := mk("num")
		d.S = fx.CanonNumeral(x.String())
		return d, nil
	case bool:
		d := mk("bool")
		d.S = fmt.Sprint(x)
		return d, nil
	case nil:
		return mk("null"), nil
	}
	return Doc{}, fmt.Errorf("unexpected token")
}

type failWriter struct {
	n, failAt int
}

func (w *failWriter) Write(p []byte) (int, error) {
	if w.n+len(p) > w.failAt {
		can := w.failAt - w.n
		if can < 0 {
			can = 0
		}
		w.n += can
		return can, fmt.Errorf("injected stream failure at byte %d", w.failAt)
	}
	w.n += len(p)
	return len(p), nil
}

func modules(f *fx.Fixture) []string {
	seen := map[string]bool{}
	out := []string{}
	for _, n := range f.DS {
		if !seen[n.Module] {
			seen[n.Module] = true
			out = append(out, n.Module)
		}
	}
	for name := range fx.Extra {
		if !seen[name] {
			seen[name] = true
			out = append(out, name)
		}
	}
	return out
}

// case: {kind:"jsonw", fixture, store, tree, at, atleaf (optional leaf name below at),
//        enumids, qualify, faults (bool), roundtrip (bool)}
func execJSONW(c core.Case) []core.Rec {
	f, err := fx.Load(c["fixture"].(string))
	if err != nil {
		return []core.Rec{{"chk": "harness", "sig": core.Rec{"err": err.Error()}}}
	}
	storeName := c["store"].(string)
	kind := fx.Stores[storeName]
	t := abs.TreeFromAny(c["tree"])
	at := abs.PathFromAny(c["at"])
	enumids, _ := c["enumids"].(bool)
	qualify, _ := c["qualify"].(bool)
	root := kind.Build(f, t)
	// the tree as the store holds it: same content, lists held in Go maps flagged unordered
	t = kind.Project(f, root)
	b := node.NewBrowser(f.Module, kind.Wrap(root))
	sel := b.Root()
	if len(at) > 0 {
		var ferr error
		ferr, _, _ = dedit.Guard(func() error {
			var e error
			sel, e = sel.Find(fx.URLPath(at))
			return e
		})
		if ferr != nil || sel == nil {
			return []core.Rec{{"chk": "skip", "why": "start-selection-not-found", "sig": core.Rec{"impl": storeName}}}
		}
	}
	atKind := "root"
	if len(at) > 0 {
		if at.IsEntry() {
			atKind = "entry"
		} else {
			atKind = f.DS.Node(at.SPath()).Kind
		}
	}
	sig := core.Rec{"impl": storeName, "at": atKind, "qualify": qualify, "enumids": enumids}
	rec := core.Rec{"chk": "jsondoc", "schema": f.Name, "module": f.Module.Ident(), "modules": modules(f), "impl": storeName,
		"tree": t, "at": at, "cfg": core.Rec{"qualify": qualify, "enumids": enumids}, "err": "", "doc": mk("invalid"), "docp": mk("invalid"), "sig": sig}
	var text, textp string
	werr, panicked, frame := dedit.Guard(func() error {
		var e error
		text, e = nodeutil.JSONWtr{EnumAsIds: enumids, QualifyNamespace: qualify}.JSON(sel)
		if e != nil {
			return e
		}
		textp, e = nodeutil.JSONWtr{EnumAsIds: enumids, QualifyNamespace: qualify, Pretty: true}.JSON(sel)
		return e
	})
	if panicked {
		rec["err"] = "panic"
		sig["frame"] = frame
	} else if werr != nil {
		rec["err"] = dedit.ErrClass(werr)
	} else {
		rec["doc"] = ParseDoc(text)
		rec["docp"] = ParseDoc(textp)
		rec["text"] = brief(text)
	}
	recs := []core.Rec{rec}
	if werr != nil || panicked {
		return recs
	}
	// stream faults
	if fl, _ := c["faults"].(bool); fl {
		n := len(text)
		points := []int{0, 1, n / 2, n - 1, n}
		for _, k := range points {
			if k < 0 || k > n {
				continue
			}
			fw := &failWriter{failAt: k}
			var ferr error
			_, p, _ := dedit.Guard(func() error {
				w := &nodeutil.JSONWtr{Out: fw, EnumAsIds: enumids, QualifyNamespace: qualify}
				ferr = sel.InsertInto(w.Node())
				return nil
			})
			recs = append(recs, core.Rec{"chk": "jsonfault", "len": n, "failat": k, "err": ferr != nil, "panic": p,
				"step": fmt.Sprintf("fault-%d", k), "sig": core.Rec{"impl": storeName, "at": atKind}})
		}
	}
	// round trip: the library's reader on the library's output, into an empty store
	if rt, _ := c["roundtrip"].(bool); rt && !enumids {
		tkind := fx.Stores["rmap"]
		pre := gen.WithAncestors(f.DS, abs.NewTree(), at)
		troot := tkind.Build(f, pre)
		tb := node.NewBrowser(f.Module, tkind.Wrap(troot))
		tsel := tb.Root()
		sub := Subtree(t, at)
		res := core.Rec{"ok": false, "err": "", "frame": "", "msg": ""}
		rerr, rp, rframe := dedit.Guard(func() error {
			var e error
			if len(at) > 0 {
				if tsel, e = tsel.Find(fx.URLPath(at)); e != nil || tsel == nil {
					return fmt.Errorf("harness: target has no %s: %v", at, e)
				}
			}
			n, e := nodeutil.ReadJSON(text)
			if e != nil {
				return e
			}
			return tsel.UpsertFrom(n)
		})
		if rp {
			res["err"] = "panic"
			res["frame"] = rframe
		} else if rerr != nil {
			res["err"] = dedit.ErrClass(rerr)
			res["msg"] = brief(rerr.Error())
		} else {
			res["ok"] = true
		}
		recs = append(recs, core.Rec{"chk": "edit", "schema": f.Name, "impl": "rmap", "src": "json-roundtrip", "ordered": false, "srcordered": true,
			"pre": pre, "op": core.Rec{"k": "upsert", "at": at, "s": sub, "dup": false}, "res": res, "post": tkind.Project(f, troot), "step": "roundtrip",
			"sig": core.Rec{"impl": storeName, "src": "json-roundtrip", "k": "upsert", "at": atKind, "big64": hasBig64(f, sub)}})
	}
	return recs
}

// hasBig64 classifies the INPUT: does the tree hold a 64-bit integer beyond 2^53
// (known finding: the reader decodes JSON numbers through float64).
func hasBig64(f *fx.Fixture, t *abs.Tree) bool {
	for _, l := range t.Leaf {
		n := f.DS.Node(l.P.SPath())
		if n == nil || (n.Type != "int64" && n.Type != "uint64") {
			continue
		}
		for _, v := range l.V {
			s := strings.TrimPrefix(v, "-")
			if len(s) > 16 || (len(s) == 16 && s > "9007199254740992") {
				return true
			}
		}
	}
	return false
}

// Subtree restricts a tree to the paths under `at` (a harness-side projection only;
// what the export must contain is decided by the specification).
func Subtree(t *abs.Tree, at abs.Path) *abs.Tree {
	out := abs.NewTree()
	for _, l := range t.Leaf {
		if l.P.HasPrefix(at) {
			out.Leaf = append(out.Leaf, l)
		}
	}
	for _, c := range t.Cont {
		if c.HasPrefix(at) {
			out.Cont = append(out.Cont, c)
		}
	}
	for _, o := range t.Ord {
		if o.P.HasPrefix(at) {
			out.Ord = append(out.Ord, o)
		}
	}
	return out.Canon()
}

func brief(s string) string {
	if len(s) > 300 {
		return s[:300] + "…"
	}
	return s
}

var _ = bytes.NewBuffer
