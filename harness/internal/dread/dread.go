// Package dread drives constrained reads (C07): Find(path?query) /
// Constrain(query) followed by an export into a capturing store.
package dread

import (
	"fmt"
	"strings"

	"verif/internal/abs"
	"verif/internal/core"
	"verif/internal/dedit"
	"verif/internal/djson"
	"verif/internal/fx"

	"github.com/freeconf/yang/node"
)

func init() {
	core.Executors["read"] = execRead
}

type Range struct {
	On  bool     `json:"on"`
	Sel []string `json:"sel"`
	Lo  int      `json:"lo"`
	Hi  int      `json:"hi"`
}

type Params struct {
	Content string     `json:"content"`
	Depth   int        `json:"depth"`
	Fields  [][]string `json:"fields"`
	XFields [][]string `json:"xfields"`
	Trim    bool       `json:"trim"`
	Range   Range      `json:"range"`
	MaxNode int        `json:"maxnode"`
	Invalid bool       `json:"invalid"`
	// Raw, when set, is the query text to use verbatim (invalid parameter values,
	// alternative syntactic forms of a field expression)
	Raw string `json:"raw"`
}

func (p *Params) norm() {
	if p.Fields == nil {
		p.Fields = [][]string{}
	}
	if p.XFields == nil {
		p.XFields = [][]string{}
	}
	if p.Range.Sel == nil {
		p.Range.Sel = []string{}
	}
}

func fieldExpr(paths [][]string) string {
	var alts []string
	for _, p := range paths {
		alts = append(alts, strings.Join(p, "/"))
	}
	return strings.Join(alts, ";")
}

// Query renders the parameters as a query string.
func (p *Params) Query() string {
	if p.Raw != "" {
		return p.Raw
	}
	var q []string
	if p.Content != "" {
		q = append(q, "content="+p.Content)
	}
	if p.Depth != 0 {
		q = append(q, fmt.Sprintf("depth=%d", p.Depth))
	}
	if len(p.Fields) > 0 {
		q = append(q, "fields="+strings.ReplaceAll(fieldExpr(p.Fields), ";", "%3B"))
	}
	if len(p.XFields) > 0 {
		q = append(q, "fc.xfields="+strings.ReplaceAll(fieldExpr(p.XFields), ";", "%3B"))
	}
	if p.Trim {
		q = append(q, "with-defaults=trim")
	}
	if p.Range.On {
		hi := ""
		if p.Range.Hi >= 0 {
			hi = fmt.Sprint(p.Range.Hi)
		}
		q = append(q, fmt.Sprintf("fc.range=%s!%d-%s", strings.Join(p.Range.Sel, "/"), p.Range.Lo, hi))
	}
	if p.MaxNode != 0 {
		q = append(q, fmt.Sprintf("fc.max-node-count=%d", p.MaxNode))
	}
	return strings.Join(q, "&")
}

// case {kind:"read", fixture, store, tree, at, p: Params, via: "find"|"constrain"}
func execRead(c core.Case) []core.Rec {
	f, err := fx.Load(c["fixture"].(string))
	if err != nil {
		return []core.Rec{{"chk": "harness", "sig": core.Rec{"err": err.Error()}}}
	}
	storeName := c["store"].(string)
	kind := fx.Stores[storeName]
	t := abs.TreeFromAny(c["tree"])
	at := abs.PathFromAny(c["at"])
	var p Params
	core.Recode(c["p"], &p)
	p.norm()
	via, _ := c["via"].(string)
	root := kind.Build(f, t)
	t = kind.Project(f, root)
	b := node.NewBrowser(f.Module, kind.Wrap(root))
	query := p.Query()
	res := core.Rec{"ok": false, "err": "", "msg": ""}
	rec := core.Rec{"chk": "read", "schema": f.Name, "impl": storeName, "tree": t, "at": at, "query": query, "p": p, "res": res,
		"got": abs.NewTree(), "sig": core.Rec{"impl": storeName, "via": via, "params": paramNames(&p)}}
	// harness-owned capturing node
	capt := fx.NewCapture(f)
	rerr, panicked, frame := dedit.Guard(func() error {
		sel := b.Root()
		var e error
		if via == "constrain" {
			if len(at) > 0 {
				if sel, e = sel.Find(fx.URLPath(at)); e != nil || sel == nil {
					return fmt.Errorf("harness: no selection at %s: %v", at, e)
				}
			}
			if sel, e = sel.Constrain(query); e != nil {
				return e
			}
		} else {
			if sel, e = sel.Find(fx.URLPath(at) + "?" + query); e != nil {
				return e
			}
			if sel == nil {
				return fmt.Errorf("harness: no selection at %s", at)
			}
		}
		return sel.UpsertInto(capt.Node(at))
	})
	if panicked {
		res["err"] = "panic"
		rec["sig"].(core.Rec)["frame"] = frame
	} else if rerr != nil {
		if strings.HasPrefix(rerr.Error(), "harness:") {
			return []core.Rec{{"chk": "skip", "why": rerr.Error(), "sig": core.Rec{"impl": storeName}}}
		}
		res["err"] = dedit.ErrClass(rerr)
		res["msg"] = rerr.Error()
		if len(rerr.Error()) > 150 {
			res["msg"] = rerr.Error()[:150]
		}
	} else {
		res["ok"] = true
	}
	rec["got"] = djson.Subtree(capt.Result(), at)
	rec["post"] = kind.Project(f, root)
	return []core.Rec{rec}
}

func paramNames(p *Params) string {
	var n []string
	if p.Content != "" {
		n = append(n, "content")
	}
	if p.Depth != 0 {
		n = append(n, "depth")
	}
	if len(p.Fields) > 0 {
		n = append(n, "fields")
	}
	if len(p.XFields) > 0 {
		n = append(n, "xfields")
	}
	if p.Trim {
		n = append(n, "trim")
	}
	if p.Range.On {
		n = append(n, "range")
	}
	if p.MaxNode != 0 {
		n = append(n, "maxnode")
	}
	if p.Invalid {
		n = append(n, "invalid")
	}
	return strings.Join(n, "+")
}
