// Package dshared replays schedules of the Shared specification (C20) into the real
// library: goroutines run programs of operations over one shared compiled module, the
// Start / End events of the schedule are enforced with channels, the binary is built with
// the race detector and its reports are collected per run.
package dshared

import (
	"bytes"
	"encoding/json"
	"fmt"
	"math/rand"
	"os"
	"os/exec"
	"path/filepath"
	"regexp"
	"sort"
	"strings"
	"sync"
	"time"

	"verif/internal/abs"
	"verif/internal/core"
	"verif/internal/dschema"
	"verif/internal/dxml"
	"verif/internal/fx"
	"verif/internal/gen"

	yang "github.com/freeconf/yang"
	"github.com/freeconf/yang/meta"
	"github.com/freeconf/yang/node"
	"github.com/freeconf/yang/nodeutil"
	"github.com/freeconf/yang/parser"
)

func init() {
	core.Executors["shared"] = execShared
}

type Event struct {
	G int    `json:"g"`
	E string `json:"e"`
}

type Run struct {
	Fixture string     `json:"fixture"`
	Progs   [][]string `json:"progs"`
	Sched   []Event    `json:"sched"`
	Seed    int64      `json:"seed"`
	Procs   int        `json:"procs"`
	Repeat  int        `json:"repeat"`
}

type Result struct {
	Sched []Event `json:"sched"` // the events in the order the controller performed them
	Same  []bool  `json:"same"`
	Diff  string  `json:"diff"`
	Err   string  `json:"err"`
}

// the modules a "load" operation compiles: everything the fixtures offer that has a
// `uses`, an import, or neither
func loadTexts() []string {
	var names []string
	for n := range fx.Sources {
		names = append(names, n)
	}
	sort.Strings(names)
	var out []string
	for _, n := range names {
		out = append(out, fx.Sources[n])
	}
	// and texts the loader answers with an error (whatever a load leaves behind must not reach the next one)
	out = append(out,
		"module bad1 { namespace \"urn:b1\"; prefix b1; revision 2024-01-01; grouping g { leaf a { type string; } } uses g { refine a { max-elements 3; } } }",
		"module ok1 { namespace \"urn:o1\"; prefix o1; revision 2024-01-01; grouping g { leaf a { type string; } } uses g { refine a { default \"d\"; } } }",
		"module bad2 { namespace \"urn:b2\"; prefix b2; revision 2024-01-01; leaf x { type nosuch; } }")
	return out
}

func loadOffset(g, i, n int) int { return (g*7 + i) % n }

func loadMods() map[string]string {
	mods := map[string]string{}
	for k, v := range fx.Extra {
		mods[k] = v
	}
	for k, v := range fx.Sources {
		mods[k] = v
	}
	return mods
}

func loadOne(mods map[string]string, text string) string {
	m, err := parser.LoadModuleFromString(dschema.MemOpener(mods), text)
	if err != nil {
		return "error: " + err.Error() + "\n"
	}
	return dschema.Dump(m)
}

// the surroundings of the first position where a differs from b
func firstDiff(a, b string) string {
	i := 0
	for i < len(a) && i < len(b) && a[i] == b[i] {
		i++
	}
	lo, hi := i-60, i+140
	if lo < 0 {
		lo = 0
	}
	if hi > len(a) {
		hi = len(a)
	}
	return fmt.Sprintf("@%d %q", i, a[lo:hi])
}

// the module that describes modules as data, compiled once and shared as well
var fcYang *meta.Module

// the browsers several goroutines use together, one per compiled instance of the fixture (the
// instance for the results alone, the instance the goroutines share)
var (
	sharedBrowsers = map[*meta.Module]*node.Browser{}
	sharedMu       sync.Mutex
)

func sharedBrowser(f *fx.Fixture) *node.Browser {
	sharedMu.Lock()
	defer sharedMu.Unlock()
	return sharedBrowsers[f.Module]
}

// prepareShared builds (and does not touch) the common browser over a fixed tree
func prepareShared(f *fx.Fixture, seed int64) {
	gp := gen.Default
	gp.PLeaf, gp.PCont, gp.PList = 0.8, 0.8, 0.8
	t := (&gen.G{DS: f.DS, R: rand.New(rand.NewSource(seed)), P: gp}).Subtree(abs.Path{})
	store := fx.Stores["nslice"]
	// every request gets its own data tree (and its own root node) from the browser's source
	b := node.NewBrowserSource(f.Module, func() node.Node { return store.Wrap(store.Build(f, t)) })
	sharedMu.Lock()
	sharedBrowsers[f.Module] = b
	sharedMu.Unlock()
}

type op struct {
	kind string
	run  func() string
}

// mkOp builds operation number i of goroutine g; everything it needs is created here,
// before any goroutine starts, except the work itself.
func mkOp(f *fx.Fixture, kind string, g, i int, seed int64) op {
	r := rand.New(rand.NewSource(seed*1000 + int64(g)*37 + int64(i)))
	gp := gen.Default
	gp.PLeaf, gp.PCont, gp.PList = 0.8, 0.8, 0.8
	gg := &gen.G{DS: f.DS, R: r, P: gp}
	t := gg.Subtree(abs.Path{})
	// the document an upsert reads names every leaf (of the cases it picks): the typed conversion
	// of each leaf type - unions and their lazily computed parts included - happens in every such
	// operation, not only when a random document happens to hold the leaf
	full := gp
	full.PLeaf, full.PCont = 1, 1
	src := (&gen.G{DS: f.DS, R: r, P: full}).Subtree(abs.Path{})
	stores := []string{"rmap", "nmap", "rslice", "nslice"}
	store := fx.Stores[stores[r.Intn(len(stores))]]
	doc := fx.JSONDoc(f, src, abs.Path{})
	texts := loadTexts()
	off := loadOffset(g, i, len(texts))
	var paths []string
	for _, c := range t.Cont {
		paths = append(paths, fx.URLPath(c))
	}
	path := ""
	if len(paths) > 0 {
		path = paths[r.Intn(len(paths))]
	}
	query := []string{"depth=2", "content=config", "with-defaults=trim", "depth=3&content=nonconfig", "fc.max-node-count=1000"}[r.Intn(5)]
	mods := loadMods()
	fail := func(err error) string { return "error: " + err.Error() }
	switch kind {
	case "load":
		return op{kind, func() string {
			// every fixture module (imports, includes, uses, augments, typedefs, ...), each
			// goroutine starting somewhere else
			var sb strings.Builder
			for k := range texts {
				sb.WriteString(loadOne(mods, texts[(off+k)%len(texts)]))
			}
			return sb.String()
		}}
	case "schema":
		return op{kind, func() string {
			b := nodeutil.SchemaBrowser(fcYang, f.Module)
			s, err := nodeutil.WriteJSON(b.Root())
			if err != nil {
				return fail(err)
			}
			return s
		}}
	case "export":
		return op{kind, func() string {
			b := node.NewBrowser(f.Module, store.Wrap(store.Build(f, t)))
			s, err := nodeutil.WriteJSON(b.Root())
			if err != nil {
				return fail(err)
			}
			return canonJSON(s)
		}}
	case "xml":
		return op{kind, func() string {
			b := node.NewBrowser(f.Module, store.Wrap(store.Build(f, t)))
			s, err := nodeutil.WriteXMLDoc(b.Root(), false)
			if err != nil {
				return fail(err)
			}
			el := dxml.ParseDoc(s)
			jb, _ := json.Marshal(sortEl(el))
			return string(jb)
		}}
	case "upsert":
		return op{kind, func() string {
			root := store.Build(f, t)
			b := node.NewBrowser(f.Module, store.Wrap(root))
			n, err := nodeutil.ReadJSON(doc)
			if err != nil {
				return fail(err)
			}
			if err := b.Root().UpsertFrom(n); err != nil {
				return fail(err)
			}
			return store.Project(f, root).Canon().JSON()
		}}
	case "sexport":
		return op{kind, func() string {
			// one browser for everybody (set up by the worker, never used before the goroutines meet)
			s, err := nodeutil.WriteJSON(sharedBrowser(f).Root())
			if err != nil {
				return fail(err)
			}
			return canonJSON(s)
		}}
	case "find":
		return op{kind, func() string {
			b := node.NewBrowser(f.Module, store.Wrap(store.Build(f, t)))
			sel, err := b.Root().Find(path + "?" + query)
			if err != nil {
				return fail(err)
			}
			if sel == nil {
				return "nil"
			}
			s, err := nodeutil.WriteJSON(sel)
			if err != nil {
				return fail(err)
			}
			return canonJSON(s)
		}}
	}
	return op{kind, func() string { return "unknown kind" }}
}

// map-backed stores iterate in no defined order: compare documents up to member / entry order
func canonJSON(s string) string {
	var v any
	dec := json.NewDecoder(strings.NewReader(s))
	dec.UseNumber()
	if err := dec.Decode(&v); err != nil {
		return s
	}
	return string(canonAny(v))
}

func canonAny(v any) []byte {
	switch x := v.(type) {
	case []any:
		var parts []string
		for _, e := range x {
			parts = append(parts, string(canonAny(e)))
		}
		sort.Strings(parts)
		return []byte("[" + strings.Join(parts, ",") + "]")
	case map[string]any:
		var ks []string
		for k := range x {
			ks = append(ks, k)
		}
		sort.Strings(ks)
		var parts []string
		for _, k := range ks {
			parts = append(parts, fmt.Sprintf("%q:%s", k, canonAny(x[k])))
		}
		return []byte("{" + strings.Join(parts, ",") + "}")
	}
	b, _ := json.Marshal(v)
	return b
}

func sortEl(e dxml.El) dxml.El {
	for i := range e.K {
		e.K[i] = sortEl(e.K[i])
	}
	sort.SliceStable(e.K, func(i, j int) bool {
		a, _ := json.Marshal(e.K[i])
		b, _ := json.Marshal(e.K[j])
		return string(a) < string(b)
	})
	return e
}

// RaceWorker runs inside the race-instrumented binary: one Run from stdin, Result to stdout.
func RaceWorker() {
	var run Run
	if err := json.NewDecoder(os.Stdin).Decode(&run); err != nil {
		fmt.Println(`{"err":"bad input"}`)
		return
	}
	res := Result{Same: []bool{}, Sched: []Event{}}
	f, err := fx.Load(run.Fixture)
	if err != nil {
		res.Err = err.Error()
		out, _ := json.Marshal(res)
		fmt.Println(string(out))
		return
	}
	if fcYang, err = parser.LoadModule(yang.InternalYPath, "fc-yang"); err != nil {
		res.Err = err.Error()
		out, _ := json.Marshal(res)
		fmt.Println(string(out))
		return
	}
	if run.Repeat < 1 {
		run.Repeat = 1
	}
	// the results "alone" are computed on one compiled instance of the module, the concurrent
	// phase shares a second, untouched instance: nothing is warmed up before the goroutines meet
	shared := *f
	if shared.Module, err = parser.LoadModuleFromString(fx.Opener(), f.Yang); err != nil {
		res.Err = err.Error()
		out, _ := json.Marshal(res)
		fmt.Println(string(out))
		return
	}
	aloneYang := fcYang
	if fcYang, err = parser.LoadModule(yang.InternalYPath, "fc-yang"); err != nil {
		res.Err = err.Error()
		out, _ := json.Marshal(res)
		fmt.Println(string(out))
		return
	}
	sharedYang := fcYang
	prepareShared(f, run.Seed)
	prepareShared(&shared, run.Seed)
	ng := len(run.Progs)
	ops := make([][]op, ng)
	alone := make([][]string, ng)
	fcYang = aloneYang
	// a load alone: every text that loads is loaded before the goroutines start, every text that
	// must fail only after they are done - the first failing load of the process happens among
	// the concurrent ones, and no failure precedes a load whose result is taken as the reference
	texts, mods := loadTexts(), loadMods()
	aloneText := map[string]string{}
	for _, t := range texts {
		if !strings.HasPrefix(t, "module bad") {
			aloneText[t] = loadOne(mods, t)
		}
	}
	for g := 0; g < ng; g++ {
		for i, k := range run.Progs[g] {
			if k == "load" {
				alone[g] = append(alone[g], "")
				continue
			}
			alone[g] = append(alone[g], mkOp(f, k, g, i, run.Seed).run()) // run alone, on the other instance
		}
	}
	fcYang = sharedYang
	before := dschema.Dump(shared.Module)
	for g := 0; g < ng; g++ {
		for i, k := range run.Progs[g] {
			ops[g] = append(ops[g], mkOp(&shared, k, g, i, run.Seed))
		}
	}
	start := make([]chan int, ng)
	done := make([]chan string, ng)
	for g := 0; g < ng; g++ {
		start[g] = make(chan int)
		done[g] = make(chan string)
		go func(g int) {
			for i := range start[g] {
				var last string
				for k := 0; k < run.Repeat; k++ {
					last = ops[g][i].run()
				}
				done[g] <- last
			}
		}(g)
	}
	pc := make([]int, ng)
	type gotAt struct {
		g, i int
		got  string
	}
	var gots []gotAt
	for _, ev := range run.Sched {
		g := ev.G - 1
		if ev.E == "start" {
			start[g] <- pc[g]
		} else {
			gots = append(gots, gotAt{g, pc[g], <-done[g]})
			pc[g]++
		}
		res.Sched = append(res.Sched, ev)
	}
	for g := 0; g < ng; g++ {
		close(start[g])
	}
	for _, t := range texts {
		if _, done := aloneText[t]; !done {
			aloneText[t] = loadOne(mods, t)
		}
	}
	for _, x := range gots {
		want := alone[x.g][x.i]
		if run.Progs[x.g][x.i] == "load" {
			off := loadOffset(x.g, x.i, len(texts))
			var sb strings.Builder
			for k := range texts {
				sb.WriteString(aloneText[texts[(off+k)%len(texts)]])
			}
			want = sb.String()
		}
		same := x.got == want
		if !same && res.Diff == "" {
			res.Diff = fmt.Sprintf("goroutine %d op %d (%s): alone %s / concurrent %s", x.g+1, x.i+1, run.Progs[x.g][x.i], firstDiff(want, x.got), firstDiff(x.got, want))
		}
		res.Same = append(res.Same, same)
	}
	// using a compiled module never changes what its accessors say
	if after := dschema.Dump(shared.Module); after != before {
		res.Same = append(res.Same, false)
		if res.Diff == "" {
			res.Diff = "the shared module reads differently after use"
		}
	}
	out, _ := json.Marshal(res)
	fmt.Println(string(out))
}

var raceHdr = regexp.MustCompile(`(?m)^WARNING: DATA RACE`)
var frameRe = regexp.MustCompile(`(?m)^  (github\.com/freeconf/yang/[^\s(]+(?:\([^)]*\))?[^\s(]*)\(`)

// case {kind:"shared", fixture, progs, sched, seed, procs, repeat}
func execShared(c core.Case) []core.Rec {
	b, _ := json.Marshal(c)
	var run Run
	json.Unmarshal(b, &run)
	dir, err := os.MkdirTemp("", "vrace-")
	if err != nil {
		return []core.Rec{{"chk": "harness", "sig": core.Rec{"err": err.Error()}}}
	}
	defer os.RemoveAll(dir)
	bin := filepath.Join(core.VerifDir, ".build", "vcheck-race")
	cmd := exec.Command(bin, "raceworker")
	in, _ := json.Marshal(run)
	cmd.Stdin = bytes.NewReader(in)
	var stdout, stderr bytes.Buffer
	cmd.Stdout, cmd.Stderr = &stdout, &stderr
	cmd.Env = append(os.Environ(), "GORACE=log_path="+filepath.Join(dir, "race")+" halt_on_error=0 exitcode=0 history_size=5", fmt.Sprintf("GOMAXPROCS=%d", run.Procs))
	crash := ""
	if err := cmd.Start(); err != nil {
		return []core.Rec{{"chk": "harness", "sig": core.Rec{"err": "race binary: " + err.Error()}}}
	}
	waited := make(chan error, 1)
	go func() { waited <- cmd.Wait() }()
	select {
	case err := <-waited:
		if err != nil {
			crash = "fatal"
			if strings.Contains(stderr.String(), "concurrent map") {
				crash = "concurrent-map"
			}
		}
	case <-time.After(120 * time.Second):
		cmd.Process.Kill()
		crash = "timeout"
	}
	var res Result
	if crash == "" {
		if err := json.Unmarshal(bytes.TrimSpace(stdout.Bytes()), &res); err != nil || res.Err != "" {
			return []core.Rec{{"chk": "harness", "sig": core.Rec{"err": "race worker: " + res.Err + " " + stdout.String() + stderr.String()}}}
		}
	}
	// race reports
	var reports []string
	frames := map[string]bool{}
	files, _ := filepath.Glob(filepath.Join(dir, "race*"))
	for _, fn := range files {
		txt, _ := os.ReadFile(fn)
		parts := raceHdr.Split(string(txt), -1)
		for _, p := range parts[1:] {
			reports = append(reports, p)
			// the first library frame of each of the two accesses
			for _, blk := range strings.Split(p, "\n\n") {
				if strings.Contains(blk, " by goroutine ") || strings.Contains(blk, " by main goroutine") {
					if m := frameRe.FindStringSubmatch(blk); m != nil {
						frames[strings.TrimPrefix(m[1], "github.com/freeconf/yang/")] = true
					}
				}
			}
		}
	}
	fl := []string{}
	for k := range frames {
		fl = append(fl, k)
	}
	sort.Strings(fl)
	if res.Same == nil {
		res.Same = []bool{}
	}
	sched := res.Sched
	if crash != "" || sched == nil {
		sched = run.Sched
	}
	first := ""
	if len(reports) > 0 {
		first = reports[0]
		if len(first) > 1500 {
			first = first[:1500]
		}
	}
	kinds := map[string]bool{}
	for _, p := range run.Progs {
		for _, k := range p {
			kinds[k] = true
		}
	}
	return []core.Rec{{"chk": "shared", "progs": run.Progs, "sched": sched, "nraces": len(reports), "same": res.Same, "crash": crash,
		"frames": fl, "report": first, "diff": res.Diff,
		"sig": core.Rec{"frames": strings.Join(fl, " | "), "crash": crash, "differs": res.Diff != ""}}}
}
