// Package dfind drives Selection.Find (C08) and keyed lookups (C17).
package dfind

import (
	"fmt"
	"github.com/freeconf/yang/val"
	"strings"

	"verif/internal/abs"
	"verif/internal/core"
	"verif/internal/dedit"
	"verif/internal/fx"

	"github.com/freeconf/yang/meta"
	"github.com/freeconf/yang/node"
)

func init() {
	core.Executors["find"] = execFind
}

// segText renders the steps of p[from:] as URL segments.
func segText(f *fx.Fixture, p abs.Path, from int, qualified bool) string {
	var segs []string
	for i := from; i < len(p); i++ {
		s := p[i]
		if len(s.K) > 0 {
			continue
		}
		seg := s.N
		if qualified {
			if n := f.DS.Node(p[:i+1].SPath()); n != nil {
				seg = n.Module + ":" + seg
			}
		}
		if i+1 < len(p) && len(p[i+1].K) > 0 {
			var ks []string
			for _, k := range p[i+1].K {
				ks = append(ks, fx.StrictEscape(k))
			}
			seg += "=" + strings.Join(ks, ",")
		}
		segs = append(segs, seg)
	}
	return strings.Join(segs, "/")
}

// RelText: the path text that leads from selection `from` to `target`.
func RelText(f *fx.Fixture, from, target abs.Path, qualified bool) string {
	common := 0
	for common < len(from) && common < len(target) && from[common].N == target[common].N &&
		strings.Join(from[common].K, "\x00") == strings.Join(target[common].K, "\x00") && len(from[common].K) == len(target[common].K) {
		common++
	}
	// an entry is addressed together with its list ("l=key"): do not stop between them
	if common < len(target) && len(target[common].K) > 0 {
		common--
	}
	ups := len(from) - common
	return strings.Repeat("../", ups) + segText(f, target, common, qualified)
}

func describe(sel *node.Selection) (sp []string, key []string) {
	sp, key = []string{}, []string{}
	if sel == nil {
		return
	}
	var names []string
	for m := meta.Meta(sel.Path.Meta); m != nil; m = m.Parent() {
		switch m.(type) {
		case *meta.Choice, *meta.ChoiceCase, *meta.Module:
			continue
		}
		if id, ok := m.(meta.Identifiable); ok {
			names = append([]string{id.Ident()}, names...)
		}
	}
	if names != nil {
		sp = names
	}
	for _, k := range sel.Key() {
		if k == nil {
			key = append(key, "<nil>")
		} else {
			key = append(key, k.String())
		}
	}
	return
}

// noKey wraps a node: a list request that names the key is answered with the item and no key
// (what a hand-written node may do: the caller knows the key it asked for)
type noKey struct{ node.Node }

func (n noKey) Child(r node.ChildRequest) (node.Node, error) {
	c, err := n.Node.Child(r)
	if c != nil {
		c = noKey{c}
	}
	return c, err
}

func (n noKey) Next(r node.ListRequest) (node.Node, []val.Value, error) {
	c, key, err := n.Node.Next(r)
	if c != nil {
		c = noKey{c}
	}
	if r.Key != nil {
		key = nil
	}
	return c, key, err
}

// case {kind:"find", fixture, store, tree, from, target, variant, unknown (name to append)}
func execFind(c core.Case) []core.Rec {
	f, err := fx.Load(c["fixture"].(string))
	if err != nil {
		return []core.Rec{{"chk": "harness", "sig": core.Rec{"err": err.Error()}}}
	}
	storeName := c["store"].(string)
	kind := fx.Stores[storeName]
	t := abs.TreeFromAny(c["tree"])
	from := abs.PathFromAny(c["from"])
	target := abs.PathFromAny(c["target"])
	variant, _ := c["variant"].(string)
	unknown, _ := c["unknown"].(string)
	root := kind.Build(f, t)
	t = kind.Project(f, root)
	data := kind.Wrap(root)
	if nk, _ := c["nokey"].(bool); nk {
		data = noKey{data}
	}
	b := node.NewBrowser(f.Module, data)
	start := b.Root()
	if len(from) > 0 {
		ferr, _, _ := dedit.Guard(func() error {
			var e error
			start, e = start.Find(fx.URLPath(from))
			return e
		})
		if ferr != nil || start == nil {
			return []core.Rec{{"chk": "skip", "why": "start-selection-not-found", "sig": core.Rec{"impl": storeName}}}
		}
	}
	text := RelText(f, from, target, variant == "qualified")
	if unknown != "" {
		if text != "" && !strings.HasSuffix(text, "/") {
			text += "/"
		}
		text += unknown
	}
	if variant == "trailing" && text != "" {
		text += "/"
	}
	tkind := "root"
	if len(target) > 0 {
		if target.IsEntry() {
			tkind = "entry"
		} else if n := f.DS.Node(target.SPath()); n != nil {
			tkind = n.Kind
		}
	}
	res := core.Rec{"found": false, "err": "", "sp": []string{}, "key": []string{}, "leaves": []core.Rec{},
		"back": core.Rec{"tried": false, "found": false, "sp": []string{}, "key": []string{}, "text": ""}}
	rec := core.Rec{"chk": "find", "schema": f.Name, "impl": storeName, "tree": t, "from": from, "target": target, "text": text,
		"unknown": unknown != "", "res": res,
		"sig": core.Rec{"impl": storeName, "variant": variant, "target": tkind, "up": strings.HasPrefix(text, "../"), "special": hasSpecial(target), "nokey": c["nokey"] == true}}
	var sel *node.Selection
	ferr, panicked, frame := dedit.Guard(func() error {
		var e error
		sel, e = start.Find(text)
		return e
	})
	if panicked {
		res["err"] = "panic"
		rec["sig"].(core.Rec)["frame"] = frame
	} else if ferr != nil {
		res["err"] = dedit.ErrClass(ferr)
	} else if sel != nil {
		res["found"] = true
		sp, key := describe(sel)
		res["sp"], res["key"] = sp, key
		// content: the direct leaves of the found container / entry
		if n := f.DS.Node(target.SPath()); len(target) > 0 && unknown == "" && n != nil && (n.Kind == "container" || target.IsEntry()) {
			leaves := []core.Rec{}
			for _, ch := range f.DS.Children(target.SPath()) {
				if ch.Kind != "leaf" && ch.Kind != "leaflist" {
					continue
				}
				name := ch.SP[len(ch.SP)-1]
				lf := core.Rec{"n": name, "set": false, "v": []string{}}
				dedit.Guard(func() error {
					v, e := sel.GetValue(name)
					if e == nil && v != nil {
						lf["set"] = true
						lf["v"] = fx.GoToLexList(ch, valueOf(v, ch))
					}
					return nil
				})
				leaves = append(leaves, lf)
			}
			res["leaves"] = leaves
		}
		// the path of the returned selection identifies the same location
		if unknown == "" && len(target) > 0 {
			back := core.Rec{"tried": true, "found": false, "sp": []string{}, "key": []string{}, "text": ""}
			dedit.Guard(func() error {
				bt := sel.Path.StringNoModule()
				back["text"] = bt
				s2, e := b.Root().Find(bt)
				if e == nil && s2 != nil {
					back["found"] = true
					back["sp"], back["key"] = describe(s2)
				}
				return nil
			})
			res["back"] = back
		}
	}
	rec["post"] = kind.Project(f, root)
	return []core.Rec{rec}
}

func valueOf(v interface{ Value() interface{} }, n *abs.SNode) any {
	if s, ok := v.(fmt.Stringer); ok && (n.Type == "bits" || n.Type == "binary") && n.Kind == "leaf" {
		return s.String()
	}
	return v.Value()
}

func hasSpecial(p abs.Path) bool {
	for _, s := range p {
		for _, k := range s.K {
			if fx.StrictEscape(k) != k {
				return true
			}
		}
	}
	return false
}
