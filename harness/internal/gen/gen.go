// Package gen generates conforming abstract data trees and edit operations
// for a fixture schema (seeded, deterministic).
package gen

import (
	"math/rand"
	"sort"
	"strings"

	"verif/internal/abs"
)

// Vocab gives the lexical values used per leaf type.
var Vocab = map[string][]string{
	"string":    {"u", "v", "w w"},
	"int32":     {"1", "7", "-5"},
	"int8":      {"-128", "0", "127"},
	"int16":     {"-32768", "9", "32767"},
	"int64":     {"-9223372036854775808", "5", "9223372036854775807"},
	"uint8":     {"0", "200", "255"},
	"uint16":    {"0", "40000", "65535"},
	"uint32":    {"0", "3000000000", "4294967295"},
	"uint64":    {"0", "9", "18446744073709551615"},
	"boolean":   {"true", "false"},
	"decimal64": {"1.5", "-0.25", "100"},
	"binary":    {"AQID", "aGk=", "/w=="},
	"empty":     {""},
	"union":     {"5", "text", "-12"},
	"leafref":   {"u", "v"},
}

var KeyVocab = map[string][]string{
	"string":  {"k1", "k2", "k3", "k4"},
	"int32":   {"1", "2", "3", "10"},
	"int64":   {"1", "2", "3", "10"},
	"uint8":   {"1", "2", "200", "255"},
	"uint64":  {"1", "2", "3", "18446744073709551615"},
	"int8":    {"-128", "-1", "1", "127"},
	"uint16":  {"1", "2", "65535", "300"},
	"boolean": {"true", "false"},
	"binary":  {"AQID", "/w==", "+/8=", "aGk="},
	// keys that agree in their first six fraction digits
	"decimal64": {"0.0000001", "0.0000003", "100.00000001", "100.00000002", "100", "1.5"},
}

type Params struct {
	PLeaf, PCont, PList float64
	MaxEntries          int
	MaxDepth            int
}

var Default = Params{PLeaf: 0.5, PCont: 0.5, PList: 0.6, MaxEntries: 3, MaxDepth: 6}

type G struct {
	DS abs.Schema
	R  *rand.Rand
	P  Params
	// StrVocab, when set, replaces the vocabulary of string leaves (not keys)
	StrVocab []string
	// KeyStr, when set, replaces the vocabulary of string-typed list keys
	KeyStr []string
}

// Hints: conforming values for leaves whose type is restricted (by schema path).
var Hints = map[string][]string{
	"v/pc": {"0", "50", "100"},
	// more fraction digits than a float32 or a %f rendering keeps
	"v/dec9": {"0.123456789", "2.000000125", "-0.000000001", "20.00000001"},
	// S7: a case that holds nothing but zero values
	"iface/zn": {"0"}, "iface/zb": {"false"}, "iface/zs": {""},
	"v/sm": {"10", "15", "20"},
}

func (g *G) value(n *abs.SNode) string {
	if h, ok := Hints[strings.Join(n.SP, "/")]; ok {
		return h[g.R.Intn(len(h))]
	}
	switch n.Type {
	case "enumeration":
		return n.Enums[g.R.Intn(len(n.Enums))].L
	case "bits":
		var ls []string
		for _, e := range n.Enums {
			if g.R.Intn(2) == 0 {
				ls = append(ls, e.L)
			}
		}
		if len(ls) == 0 {
			ls = []string{n.Enums[0].L}
		}
		return strings.Join(ls, " ")
	case "identityref":
		return n.Bases[g.R.Intn(len(n.Bases))]
	}
	v := Vocab[n.Type]
	if len(v) == 0 {
		v = Vocab["string"]
	}
	if n.Type == "string" && len(g.StrVocab) > 0 {
		v = g.StrVocab
	}
	return v[g.R.Intn(len(v))]
}

// Subtree generates a random conforming tree for the content below `at`
// (the node `at` itself included as existing when it is not the root).
func (g *G) Subtree(at abs.Path) *abs.Tree {
	t := abs.NewTree()
	if len(at) > 0 {
		n := g.DS.Node(at.SPath())
		if at.IsEntry() {
			t.Cont = append(t.Cont, at)
			g.fillEntryKeys(t, at, n)
			g.children(t, at, 0)
		} else if n.Kind == "list" {
			g.list(t, at, n, true)
		} else {
			t.Cont = append(t.Cont, at)
			g.children(t, at, 0)
		}
	} else {
		g.children(t, at, 0)
	}
	return t.Canon()
}

func (g *G) fillEntryKeys(t *abs.Tree, e abs.Path, list *abs.SNode) {
	for i, kn := range list.Keys {
		kp := e.Child(abs.S(kn))
		if _, ok := t.LeafAt(kp); !ok {
			t.Leaf = append(t.Leaf, abs.LeafItem{P: kp, V: []string{e[len(e)-1].K[i]}})
		}
	}
}

func (g *G) children(t *abs.Tree, at abs.Path, depth int) {
	nodes := g.DS.Children(at.SPath())
	base := 0
	if len(at) > 0 {
		base = len(g.DS.Node(at.SPath()).Cases)
	}
	g.group(t, at, nodes, base, depth)
}

func (g *G) group(t *abs.Tree, at abs.Path, nodes []*abs.SNode, chain int, depth int) {
	choices := map[string]map[string][]*abs.SNode{}
	var chOrder []string
	for _, n := range nodes {
		if len(n.Cases) == chain {
			g.node(t, at, n, depth)
			continue
		}
		cr := n.Cases[chain]
		if choices[cr.Ch] == nil {
			choices[cr.Ch] = map[string][]*abs.SNode{}
			chOrder = append(chOrder, cr.Ch)
		}
		choices[cr.Ch][cr.Cs] = append(choices[cr.Ch][cr.Cs], n)
	}
	for _, ch := range chOrder {
		var cases []string
		for cs := range choices[ch] {
			cases = append(cases, cs)
		}
		sort.Strings(cases)
		pick := g.R.Intn(len(cases) + 1)
		if pick == len(cases) {
			continue // no case selected
		}
		g.group(t, at, choices[ch][cases[pick]], chain+1, depth)
	}
}

func (g *G) node(t *abs.Tree, at abs.Path, n *abs.SNode, depth int) {
	name := n.SP[len(n.SP)-1]
	p := at.Child(abs.S(name))
	switch n.Kind {
	case "leaf":
		if at.IsEntry() {
			l := g.DS.Node(at.SPath())
			for _, k := range l.Keys {
				if k == name {
					return // key leaves are set by fillEntryKeys
				}
			}
		}
		if g.R.Float64() < g.P.PLeaf {
			t.Leaf = append(t.Leaf, abs.LeafItem{P: p, V: []string{g.value(n)}})
		}
	case "leaflist":
		if g.R.Float64() < g.P.PLeaf {
			cnt := 1 + g.R.Intn(3)
			var vs []string
			for i := 0; i < cnt; i++ {
				vs = append(vs, g.value(n))
			}
			t.Leaf = append(t.Leaf, abs.LeafItem{P: p, V: vs})
		}
	case "container":
		if depth < g.P.MaxDepth && g.R.Float64() < g.P.PCont {
			t.Cont = append(t.Cont, p)
			g.children(t, p, depth+1)
		}
	case "list":
		if depth < g.P.MaxDepth && g.R.Float64() < g.P.PList {
			g.list(t, p, n, false)
		}
	}
}

func (g *G) keyTuple(n *abs.SNode) []string {
	var key []string
	for _, kn := range n.Keys {
		knode := g.DS.Node(append(append([]string{}, n.SP...), kn))
		kt := knode.Type
		if kt == "enumeration" {
			key = append(key, knode.Enums[g.R.Intn(len(knode.Enums))].L)
			continue
		}
		kv := KeyVocab[kt]
		if len(kv) == 0 {
			kv = KeyVocab["string"]
		}
		if kt == "string" && len(g.KeyStr) > 0 {
			kv = g.KeyStr
		}
		key = append(key, kv[g.R.Intn(len(kv))])
	}
	return key
}

func (g *G) list(t *abs.Tree, p abs.Path, n *abs.SNode, nonEmpty bool) {
	t.Cont = append(t.Cont, p)
	cnt := g.R.Intn(g.P.MaxEntries + 1)
	if nonEmpty && cnt == 0 {
		cnt = 1
	}
	// an existing list always has at least one entry in generated trees: whether an
	// empty list "exists" is store specific (DESIGN 4.5)
	if cnt == 0 {
		cnt = 1
	}
	seen := map[string]bool{}
	ord := abs.OrdItem{P: p, Keys: [][]string{}}
	name := n.SP[len(n.SP)-1]
	for i := 0; i < cnt; i++ {
		key := g.keyTuple(n)
		ks := strings.Join(key, "\x00")
		if seen[ks] {
			continue
		}
		seen[ks] = true
		e := p.Child(abs.E(name, key...))
		t.Cont = append(t.Cont, e)
		g.fillEntryKeys(t, e, n)
		g.children(t, e, len(e))
		ord.Keys = append(ord.Keys, key)
	}
	t.Ord = append(t.Ord, ord)
}

// Nodes lists the existing containers, list nodes and entries of a tree
// (candidates for edit entry points), root first.
func Nodes(t *abs.Tree) []abs.Path {
	out := []abs.Path{{}}
	out = append(out, t.Cont...)
	return out
}

// WithAncestors returns s plus the ancestors of `at` (containers, list nodes,
// entries with their key leaves) so that a store can be built from it.
func WithAncestors(ds abs.Schema, s *abs.Tree, at abs.Path) *abs.Tree {
	return withAncestors(ds, s, at, true)
}

// AncestorsNoKeys is WithAncestors without the key leaves of ancestor entries (for
// map-backed capturing stores, where the map key identifies the entry).
func AncestorsNoKeys(ds abs.Schema, s *abs.Tree, at abs.Path) *abs.Tree {
	return withAncestors(ds, s, at, false)
}

func withAncestors(ds abs.Schema, s *abs.Tree, at abs.Path, keyLeaves bool) *abs.Tree {
	out := s.Clone()
	for i := 1; i <= len(at); i++ {
		p := at[:i]
		if !out.HasCont(p) {
			out.Cont = append(out.Cont, append(abs.Path{}, p...))
		}
		if p.IsEntry() {
			n := ds.Node(p.SPath())
			for j, kn := range n.Keys {
				if !keyLeaves {
					break
				}
				kp := abs.Path(append(abs.Path{}, p...)).Child(abs.S(kn))
				if _, ok := out.LeafAt(kp); !ok {
					out.Leaf = append(out.Leaf, abs.LeafItem{P: kp, V: []string{p[len(p)-1].K[j]}})
				}
			}
			lp := p[:len(p)-1]
			found := false
			for oi := range out.Ord {
				if out.Ord[oi].P.Key() == lp.Key() {
					found = true
					has := false
					for _, k := range out.Ord[oi].Keys {
						if strings.Join(k, "\x00") == strings.Join(p[len(p)-1].K, "\x00") {
							has = true
						}
					}
					if !has {
						out.Ord[oi].Keys = append(out.Ord[oi].Keys, p[len(p)-1].K)
					}
				}
			}
			if !found {
				out.Ord = append(out.Ord, abs.OrdItem{P: append(abs.Path{}, lp...), Keys: [][]string{p[len(p)-1].K}})
			}
		}
	}
	return out.Canon()
}

// StringClasses: one representative string per character class that matters to text
// codecs (every C0 control character individually, quotes, backslash, slash, markup
// characters, DEL, line/paragraph separators, BMP and astral code points, whitespace
// at the edges, CDATA terminator), alone and embedded.
func StringClasses() []string {
	var cls []string
	for c := 1; c < 0x20; c++ {
		cls = append(cls, string(rune(c)))
	}
	cls = append(cls, "\"", "\\", "/", "<", ">", "&", "'", "\x7f", "\u2028", "\u2029", "\u00e9", "\u4e2d", "\U0001F600",
		" ", "  ", "]]>", "<!--", "&amp;", "%", "+", "\ufeff", "\u0085")
	var out []string
	for _, c := range cls {
		out = append(out, c, "a"+c, c+"b", "a"+c+"b", c+c)
	}
	out = append(out, " lead", "trail ", " both ", "in  ner", "tab\tin", "nl\nin", "a\r\nb")
	return out
}

// XMLStringClasses: StringClasses without the C0 control characters XML 1.0 cannot
// carry at all (everything below U+0020 except tab, line feed, carriage return).
func XMLStringClasses() []string {
	var out []string
	for _, s := range StringClasses() {
		ok := true
		for _, r := range s {
			if r < 0x20 && r != '\t' && r != '\n' && r != '\r' {
				ok = false
			}
			if r == 0xfffe || r == 0xffff {
				ok = false
			}
		}
		if ok {
			out = append(out, s)
		}
	}
	return out
}
