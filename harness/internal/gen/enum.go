package gen

import (
	"sort"
	"strings"

	"verif/internal/abs"
)

// Enum enumerates, exhaustively, every conforming subtree rooted at `at` with
// at most maxNodes data nodes (key leaves not counted) over a small value /
// key universe.  Used for the operation alphabet of the exhaustive model.
type Enum struct {
	DS     abs.Schema
	Values map[string][]string // per leaf type
	Keys   []string
}

type partial struct {
	t    *abs.Tree
	size int
}

func (e *Enum) Subtrees(at abs.Path, maxNodes int) []*abs.Tree {
	var outs []*abs.Tree
	seen := map[string]bool{}
	var start []partial
	base := abs.NewTree()
	budget := maxNodes
	if len(at) > 0 {
		n := e.DS.Node(at.SPath())
		if !at.IsEntry() && n.Kind == "list" {
			// list selection: enumerate entry sets
			for _, p := range e.listOptions(at, n, maxNodes) {
				outs = appendUniq(outs, seen, p.t)
			}
			return outs
		}
		base.Cont = append(base.Cont, at)
		if at.IsEntry() {
			e.keys(base, at, n)
		}
	}
	start = []partial{{base, 0}}
	for _, p := range e.childrenOptions(at, start, budget) {
		outs = appendUniq(outs, seen, p.t)
	}
	return outs
}

func appendUniq(outs []*abs.Tree, seen map[string]bool, t *abs.Tree) []*abs.Tree {
	c := t.Clone()
	k := c.JSON()
	if seen[k] {
		return outs
	}
	seen[k] = true
	return append(outs, c)
}

func (e *Enum) keys(t *abs.Tree, entry abs.Path, list *abs.SNode) {
	for i, kn := range list.Keys {
		t.Leaf = append(t.Leaf, abs.LeafItem{P: entry.Child(abs.S(kn)), V: []string{entry[len(entry)-1].K[i]}})
	}
}

// childrenOptions extends each partial tree with every combination of the
// children of `at` within the node budget.
func (e *Enum) childrenOptions(at abs.Path, in []partial, budget int) []partial {
	nodes := e.DS.Children(at.SPath())
	base := 0
	if len(at) > 0 {
		base = len(e.DS.Node(at.SPath()).Cases)
	}
	return e.groupOptions(at, nodes, base, in, budget)
}

func (e *Enum) groupOptions(at abs.Path, nodes []*abs.SNode, chain int, in []partial, budget int) []partial {
	cur := in
	choices := map[string]map[string][]*abs.SNode{}
	var chOrder []string
	for _, n := range nodes {
		if len(n.Cases) == chain {
			cur = e.nodeOptions(at, n, cur, budget)
			continue
		}
		cr := n.Cases[chain]
		if choices[cr.Ch] == nil {
			choices[cr.Ch] = map[string][]*abs.SNode{}
			chOrder = append(chOrder, cr.Ch)
		}
		choices[cr.Ch][cr.Cs] = append(choices[cr.Ch][cr.Cs], n)
	}
	for _, ch := range chOrder {
		var cases []string
		for cs := range choices[ch] {
			cases = append(cases, cs)
		}
		sort.Strings(cases)
		next := append([]partial{}, cur...) // no case selected
		for _, cs := range cases {
			for _, p := range e.groupOptions(at, choices[ch][cs], chain+1, cur, budget) {
				next = append(next, p)
			}
		}
		cur = dedupe(next)
	}
	return cur
}

func dedupe(ps []partial) []partial {
	seen := map[string]bool{}
	var out []partial
	for _, p := range ps {
		k := p.t.Clone().JSON()
		if !seen[k] {
			seen[k] = true
			out = append(out, p)
		}
	}
	return out
}

func with(p partial, f func(t *abs.Tree), add int) partial {
	t := p.t.Clone()
	f(t)
	return partial{t, p.size + add}
}

func (e *Enum) nodeOptions(at abs.Path, n *abs.SNode, in []partial, budget int) []partial {
	name := n.SP[len(n.SP)-1]
	p := at.Child(abs.S(name))
	out := append([]partial{}, in...) // absent
	switch n.Kind {
	case "leaf":
		if at.IsEntry() {
			for _, k := range e.DS.Node(at.SPath()).Keys {
				if k == name {
					return in
				}
			}
		}
		for _, base := range in {
			if base.size+1 > budget {
				continue
			}
			for _, v := range e.Values[n.Type] {
				v := v
				out = append(out, with(base, func(t *abs.Tree) { t.Leaf = append(t.Leaf, abs.LeafItem{P: p, V: []string{v}}) }, 1))
			}
		}
	case "leaflist":
		for _, base := range in {
			if base.size+1 > budget {
				continue
			}
			vs := e.Values[n.Type]
			out = append(out, with(base, func(t *abs.Tree) { t.Leaf = append(t.Leaf, abs.LeafItem{P: p, V: []string{vs[0]}}) }, 1))
			if len(vs) > 1 {
				out = append(out, with(base, func(t *abs.Tree) { t.Leaf = append(t.Leaf, abs.LeafItem{P: p, V: []string{vs[1], vs[0]}}) }, 1))
			}
		}
	case "container":
		for _, base := range in {
			if base.size+1 > budget {
				continue
			}
			b := with(base, func(t *abs.Tree) { t.Cont = append(t.Cont, p) }, 1)
			out = append(out, e.childrenOptions(p, []partial{b}, budget)...)
		}
	case "list":
		for _, base := range in {
			if base.size+2 > budget {
				continue
			}
			for _, lo := range e.listOptions(p, n, budget-base.size) {
				lo := lo
				out = append(out, with(base, func(t *abs.Tree) {
					t.Leaf = append(t.Leaf, lo.t.Leaf...)
					t.Cont = append(t.Cont, lo.t.Cont...)
					t.Ord = append(t.Ord, lo.t.Ord...)
				}, lo.size))
			}
		}
	}
	return out
}

// listOptions: the list node with every non-empty sequence of distinct keys
// (both orders) and every content of each entry, within the budget.
func (e *Enum) listOptions(lp abs.Path, n *abs.SNode, budget int) []partial {
	name := n.SP[len(n.SP)-1]
	var seqs [][]string
	for _, a := range e.Keys {
		seqs = append(seqs, []string{a})
		for _, b := range e.Keys {
			if a != b {
				seqs = append(seqs, []string{a, b})
			}
		}
	}
	var out []partial
	for _, seq := range seqs {
		if 1+len(seq) > budget {
			continue
		}
		base := abs.NewTree()
		base.Cont = append(base.Cont, lp)
		ord := abs.OrdItem{P: lp, Keys: [][]string{}}
		cur := []partial{{base, 1}}
		for _, k := range seq {
			ep := lp.Child(abs.E(name, k))
			ord.Keys = append(ord.Keys, []string{k})
			var next []partial
			for _, c := range cur {
				if c.size+1 > budget {
					continue
				}
				b := with(c, func(t *abs.Tree) {
					t.Cont = append(t.Cont, ep)
					e.keys(t, ep, n)
				}, 1)
				next = append(next, e.childrenOptions(ep, []partial{b}, budget)...)
			}
			cur = next
		}
		for _, c := range cur {
			c.t.Ord = append(c.t.Ord, ord)
			out = append(out, c)
		}
	}
	return out
}

// AllPaths lists every container / list / entry path that can exist over the
// key universe (entry points of operations).
func (e *Enum) AllPaths() []abs.Path {
	out := []abs.Path{{}}
	var walk func(at abs.Path)
	walk = func(at abs.Path) {
		for _, n := range e.DS.Children(at.SPath()) {
			name := n.SP[len(n.SP)-1]
			p := at.Child(abs.S(name))
			switch n.Kind {
			case "container":
				out = append(out, p)
				walk(p)
			case "list":
				out = append(out, p)
				for _, k := range e.Keys {
					ep := p.Child(abs.E(name, k))
					out = append(out, ep)
					walk(ep)
				}
			}
		}
	}
	walk(abs.Path{})
	sort.Slice(out, func(i, j int) bool { return strings.Compare(out[i].Key(), out[j].Key()) < 0 })
	return out
}
