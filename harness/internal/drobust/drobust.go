// Package drobust drives arbitrary request content into a browser over a valid schema
// (C13): JSON / XML edit sources, Find paths, query strings, XPath texts, SetValue
// values.  It records only what happened (result, error, panic) and whether the stored
// tree could be read afterwards.
package drobust

import (
	"encoding/json"
	"errors"
	"fmt"
	"math"
	"net/url"
	"strings"

	"verif/internal/abs"
	"verif/internal/core"
	"verif/internal/dedit"
	"verif/internal/fx"

	"github.com/freeconf/yang/node"
	"github.com/freeconf/yang/nodeutil"
	"github.com/freeconf/yang/val"
)

func init() {
	core.Executors["req"] = execReq
	core.CrashRecHook["req"] = func(c core.Case, kind, frame string) core.Rec {
		shape, _ := c["shape"].(string)
		req, _ := c["req"].(string)
		return core.Rec{"chk": "robust", "kind": req, "shape": shape, "out": kind, "walk": "n/a", "frame": frame,
			"sig": core.Rec{"kind": req, "shape": shape, "out": kind, "frame": frame, "what": c["what"]}}
	}
}

var errNil = errors.New("nil selection")

// GoValue builds the Go value a SetValue case describes.
func GoValue(d map[string]any) any {
	s, _ := d["v"].(string)
	switch d["go"] {
	case "nil":
		return nil
	case "string":
		return s
	case "bigstring":
		return strings.Repeat("x", 1<<20)
	case "int":
		var n int
		fmt.Sscan(s, &n)
		return n
	case "int8":
		return int8(-128)
	case "int64":
		var n int64
		fmt.Sscan(s, &n)
		return n
	case "uint64":
		var n uint64
		fmt.Sscan(s, &n)
		return n
	case "uint":
		return uint(7)
	case "float64":
		switch s {
		case "nan":
			return math.NaN()
		case "inf":
			return math.Inf(1)
		case "-inf":
			return math.Inf(-1)
		}
		var x float64
		fmt.Sscan(s, &x)
		return x
	case "float32":
		return float32(1.5)
	case "bool":
		return s == "true"
	case "strings":
		return strings.Fields(s)
	case "emptystrings":
		return []string{}
	case "ints":
		return []int{1, -2, 3}
	case "int64s":
		return []int64{math.MaxInt64, math.MinInt64}
	case "floats":
		return []float64{1.5, math.NaN()}
	case "bools":
		return []bool{true, false}
	case "anys":
		return []any{"a", 1, 2.5, nil, true, []any{1}}
	case "emptyanys":
		return []any{}
	case "nilanys":
		var x []any
		return x
	case "nested":
		return [][]string{{"a"}, {"b"}}
	case "map":
		return map[string]any{"a": 1}
	case "mapif":
		return map[any]any{1: 2}
	case "struct":
		return struct{ A int }{1}
	case "ptr":
		x := 7
		return &x
	case "nilptr":
		var x *int
		return x
	case "chan":
		return make(chan int)
	case "func":
		return func() {}
	case "bytes":
		return []byte(s)
	case "rune":
		return 'x'
	case "jsonnumber":
		return json.Number(s)
	case "complex":
		return complex(1, 2)
	case "error":
		return errors.New(s)
	case "val.String":
		return val.String(s)
	case "val.Int32":
		return val.Int32(7)
	case "val.StringList":
		return val.StringList(strings.Fields(s))
	case "val.Bool":
		return val.Bool(true)
	case "val.Enum":
		return val.Enum{Id: 99, Label: s}
	case "val.EnumList":
		return val.EnumList{{Id: 1, Label: s}}
	case "val.IdentRef":
		return val.IdentRef{Label: s}
	case "val.NotEmpty":
		return val.NotEmpty
	case "val.Any":
		return val.Any{Thing: map[string]any{"a": 1}}
	case "val.Decimal64":
		return val.Decimal64(1.5)
	}
	return s
}

func apply(sel *node.Selection, op string, n node.Node) error {
	switch op {
	case "insert":
		return sel.InsertFrom(n)
	case "update":
		return sel.UpdateFrom(n)
	case "replace":
		return sel.ReplaceFrom(n)
	}
	return sel.UpsertFrom(n)
}

// case {kind:"req", fixture, store, tree, at, req, shape, what, op, text, value}
func execReq(c core.Case) []core.Rec {
	f, err := fx.Load(c["fixture"].(string))
	if err != nil {
		return []core.Rec{{"chk": "harness", "sig": core.Rec{"err": err.Error()}}}
	}
	storeName := c["store"].(string)
	kind := fx.Stores[storeName]
	t := abs.TreeFromAny(c["tree"])
	at := abs.PathFromAny(c["at"])
	req, _ := c["req"].(string)
	shape, _ := c["shape"].(string)
	what, _ := c["what"].(string)
	op, _ := c["op"].(string)
	text, _ := c["text"].(string)
	root := kind.Build(f, t)
	b := node.NewBrowser(f.Module, kind.Wrap(root))
	sel := b.Root()
	if len(at) > 0 {
		ferr, _, _ := dedit.Guard(func() error {
			var e error
			sel, e = sel.Find(fx.URLPath(at))
			return e
		})
		if ferr != nil || sel == nil {
			return []core.Rec{{"chk": "skip", "why": "start-selection-not-found", "sig": core.Rec{"impl": storeName}}}
		}
	}
	out, walk := "result", "n/a"
	rerr, panicked, frame := dedit.Guard(func() error {
		switch req {
		case "json-edit":
			n, e := nodeutil.ReadJSON(text)
			if e != nil {
				return e
			}
			return apply(sel, op, n)
		case "xml-edit":
			n, e := nodeutil.ReadXMLDoc(strings.NewReader(text))
			if e != nil {
				return e
			}
			return apply(sel, op, n)
		case "find":
			s2, e := sel.Find(text)
			if e != nil {
				return e
			}
			if s2 == nil {
				return errNil
			}
			_, e = nodeutil.WriteJSON(s2)
			return e
		case "query":
			s2, e := sel.Find("?" + text)
			if e != nil {
				return e
			}
			if s2 == nil {
				return errNil
			}
			if _, e = nodeutil.WriteJSON(s2); e != nil {
				return e
			}
			s3, e := sel.Constrain(text)
			if e != nil {
				return e
			}
			_, e = nodeutil.WriteJSON(s3)
			return e
		case "xpath":
			s2, e := sel.Find("?" + op + "=" + url.QueryEscape(text))
			if e != nil {
				return e
			}
			if s2 == nil {
				return errNil
			}
			_, e = nodeutil.WriteJSON(s2)
			return e
		case "setvalue":
			d, _ := c["value"].(map[string]any)
			s2, e := sel.Find(text)
			if e != nil {
				return e
			}
			if s2 == nil {
				return errNil
			}
			return s2.SetValue(GoValue(d))
		}
		return fmt.Errorf("unknown request kind %s", req)
	})
	msg := ""
	if panicked {
		out = "panic"
	} else if rerr != nil {
		out = "error"
	}
	if rerr != nil {
		msg = rerr.Error()
		if len(msg) > 160 {
			msg = msg[:160]
		}
	}
	// whatever happened, what is stored can still be read
	if !panicked {
		werr, wp, wframe := dedit.Guard(func() error {
			_, e := nodeutil.WriteJSON(b.Root())
			return e
		})
		switch {
		case wp:
			walk = "panic"
			frame = wframe
			msg = "reread: " + werr.Error()
		case werr != nil:
			walk = "panic"
			msg = "reread error: " + werr.Error()
		default:
			walk = "ok"
		}
	}
	return []core.Rec{{"chk": "robust", "kind": req, "shape": shape, "out": out, "walk": walk, "frame": frame, "msg": msg,
		"sig": core.Rec{"kind": req, "shape": shape, "out": out, "walk": walk, "frame": frame, "what": what, "impl": storeName, "schema": f.Name}}}
}
