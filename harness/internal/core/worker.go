package core

import (
	"bufio"
	"encoding/json"
	"fmt"
	"io"
	"os"
	"os/exec"
	"runtime"
	"strings"
	"sync"
	"time"
)

// WorkerMain is the body of `vcheck worker`: read one case per line, write a
// write-ahead marker, execute, write the records.
func WorkerMain() {
	in := bufio.NewReaderSize(os.Stdin, 1<<20)
	out := bufio.NewWriterSize(os.Stdout, 1<<20)
	enc := json.NewEncoder(out)
	enc.SetEscapeHTML(false)
	for {
		line, err := in.ReadBytes('\n')
		if len(line) > 0 {
			var c Case
			if e := json.Unmarshal(line, &c); e != nil {
				fmt.Fprintf(os.Stderr, "worker: bad case: %v\n", e)
				os.Exit(3)
			}
			recs := ExecCase(c)
			for _, r := range recs {
				delete(r, "case")
			}
			enc.Encode(map[string]any{"recs": recs})
			out.Flush()
		}
		if err != nil {
			return
		}
	}
}

type worker struct {
	cmd *exec.Cmd
	in  io.WriteCloser
	out *bufio.Reader
	errTail *tailBuf
}

type tailBuf struct {
	mu sync.Mutex
	b  []byte
}

func (t *tailBuf) Write(p []byte) (int, error) {
	t.mu.Lock()
	defer t.mu.Unlock()
	t.b = append(t.b, p...)
	if len(t.b) > 1<<16 {
		t.b = t.b[len(t.b)-(1<<16):]
	}
	return len(p), nil
}

func (t *tailBuf) String() string {
	t.mu.Lock()
	defer t.mu.Unlock()
	return string(t.b)
}

func startWorker() (*worker, error) {
	cmd := exec.Command(os.Args[0], "worker")
	cmd.Env = append(os.Environ(), "GOTRACEBACK=single", "GOMAXPROCS=2")
	in, err := cmd.StdinPipe()
	if err != nil {
		return nil, err
	}
	outp, err := cmd.StdoutPipe()
	if err != nil {
		return nil, err
	}
	tb := &tailBuf{}
	cmd.Stderr = tb
	if err := cmd.Start(); err != nil {
		return nil, err
	}
	return &worker{cmd: cmd, in: in, out: bufio.NewReaderSize(outp, 1<<20), errTail: tb}, nil
}

func (w *worker) kill() {
	w.in.Close()
	w.cmd.Process.Kill()
	w.cmd.Wait()
}

// topFrame extracts the first non-runtime frame of a fatal crash report.
func topFrame(stderr string) (string, string) {
	kind := "fatal"
	if strings.Contains(stderr, "stack overflow") || strings.Contains(stderr, "goroutine stack exceeds") {
		kind = "stack-overflow"
	} else if strings.Contains(stderr, "concurrent map") {
		kind = "concurrent-map"
	} else if strings.Contains(stderr, "panic:") {
		kind = "panic"
	}
	for _, l := range strings.Split(stderr, "\n") {
		l = strings.TrimSpace(l)
		if strings.HasPrefix(l, "github.com/freeconf/yang/") {
			if i := strings.Index(l, "("); i > 0 {
				l = l[:i]
			}
			return kind, strings.TrimPrefix(l, "github.com/freeconf/yang/")
		}
	}
	return kind, ""
}

// RunIsolated executes cases in worker processes.  A fatal crash or a timeout
// is attributed to the case being executed and recorded as an ordinary record
// {"crash": kind, "frame": f}; the worker is restarted on the next case.
func RunIsolated(cases []Case, timeout time.Duration) ([]Rec, error) {
	if timeout == 0 {
		timeout = 20 * time.Second
	}
	nw := runtime.NumCPU() / 2
	if nw > len(cases) {
		nw = len(cases)
	}
	if nw < 1 {
		nw = 1
	}
	results := make([][]Rec, len(cases))
	var wg sync.WaitGroup
	var firstErr error
	var mu sync.Mutex
	next := 0
	take := func() int {
		mu.Lock()
		defer mu.Unlock()
		if next >= len(cases) {
			return -1
		}
		next++
		return next - 1
	}
	for wi := 0; wi < nw; wi++ {
		wg.Add(1)
		go func() {
			defer wg.Done()
			var w *worker
			defer func() {
				if w != nil {
					w.kill()
				}
			}()
			for {
				i := take()
				if i < 0 {
					return
				}
				if w == nil {
					var err error
					if w, err = startWorker(); err != nil {
						mu.Lock()
						firstErr = err
						mu.Unlock()
						return
					}
				}
				b, _ := json.Marshal(cases[i])
				b = append(b, '\n')
				type rd struct {
					line []byte
					err  error
				}
				ch := make(chan rd, 1)
				if _, err := w.in.Write(b); err != nil {
					ch <- rd{nil, err}
				} else {
					go func(w *worker) {
						l, err := w.out.ReadBytes('\n')
						ch <- rd{l, err}
					}(w)
				}
				var recs []Rec
				select {
				case r := <-ch:
					if r.err != nil {
						w.cmd.Wait()
						kind, frame := topFrame(w.errTail.String())
						recs = []Rec{crashRec(cases[i], kind, frame)}
						w.kill()
						w = nil
					} else {
						var resp struct{ Recs []Rec }
						if err := json.Unmarshal(r.line, &resp); err != nil {
							mu.Lock()
							firstErr = fmt.Errorf("worker protocol: %v", err)
							mu.Unlock()
							return
						}
						recs = resp.Recs
					}
				case <-time.After(timeout):
					recs = []Rec{crashRec(cases[i], "timeout", "")}
					w.kill()
					w = nil
				}
				for si, r := range recs {
					r["case"] = cases[i]
					if _, ok := r["step"]; !ok {
						r["step"] = si
					}
				}
				results[i] = recs
			}
		}()
	}
	wg.Wait()
	if firstErr != nil {
		return nil, firstErr
	}
	var all []Rec
	for _, r := range results {
		all = append(all, r...)
	}
	return all, nil
}

// CrashRecHook lets a driver shape the record of a crashed case so that it has
// the fields its evaluator expects.
var CrashRecHook = map[string]func(c Case, kind, frame string) Rec{}

func crashRec(c Case, kind, frame string) Rec {
	k, _ := c["kind"].(string)
	if h := CrashRecHook[k]; h != nil {
		return h(c, kind, frame)
	}
	return Rec{"chk": "crash", "crash": kind, "frame": frame, "sig": Rec{"kind": k, "crash": kind, "frame": frame}}
}
