// Package core holds the plumbing shared by all checks: running TLC, trace
// files, worker processes, known findings, evidence.
package core

import (
	"bufio"
	"bytes"
	"context"
	"fmt"
	"os"
	"os/exec"
	"path/filepath"
	"regexp"
	"strconv"
	"strings"
	"time"
)

// VerifDir is the root of the verification tree (specs, evidence, known findings).
var VerifDir = func() string {
	if d := os.Getenv("VERIF_DIR"); d != "" {
		return d
	}
	return "/verif"
}()

const tlaJars = "/opt/veriftools/tla/tla2tools.jar:/opt/veriftools/tla/CommunityModules-deps.jar"

// TLCRun describes one TLC invocation.
type TLCRun struct {
	Module   string            // module name without .tla (looked up in spec/)
	Cfg      string            // cfg file name (in spec/); defaults to Module+".cfg"
	Env      map[string]string // extra environment (IOEnv.X in the spec)
	Workers  int               // 0 => 16
	Timeout  time.Duration     // 0 => 10 min
	Simulate string            // e.g. "num=200" => -simulate num=200
	Depth    int               // -depth for simulation
	Seed     int64             // -seed (simulation)
	Coverage bool              // -coverage 1
	DFS      bool              // depth-first state queue (behaviour-mode traces)
	Deadlock bool              // keep deadlock checking on (default off: -deadlock given)
	HeapGB   int               // 0 => 4
}

// TLCResult is what we parse out of TLC's output.
type TLCResult struct {
	ExitCode    int
	Generated   int64
	Distinct    int64
	Depth       int
	Out         string
	Lines       []string          // raw @@-prefixed payload lines (TLC value syntax)
	Violation   bool              // invariant / property / assumption violated
	ViolationOf string            // name of invariant/property if TLC printed one
	Errors      []string          // other TLC errors (parse, runtime)
	Cover       map[string]int64  // action name -> distinct states found through it
	Wall        time.Duration
	CexTrace    []string          // counterexample states as printed
	TimedOut    bool
	AssumeFalse bool
}

var (
	reStates   = regexp.MustCompile(`(\d+) states generated, (\d+) distinct states found`)
	reDepth    = regexp.MustCompile(`The depth of the complete state graph search is (\d+)`)
	reInv      = regexp.MustCompile(`Invariant (\S+) is violated`)
	reProp     = regexp.MustCompile(`(?:Action|Temporal) property (\S+) (?:is|was) violated`)
	reCover    = regexp.MustCompile(`^<(\w+) line \d+, col \d+ to line \d+, col \d+ of module (\w+)>: (\d+):(\d+)`)
	reAtAt     = regexp.MustCompile(`@@[A-Z]+`)
)

// RunTLC copies spec/ into a scratch directory (TLC litters its working
// directory), runs TLC there and removes the directory again.
func RunTLC(r TLCRun) (*TLCResult, error) {
	scratch, err := os.MkdirTemp("", "vtlc-")
	if err != nil {
		return nil, err
	}
	defer os.RemoveAll(scratch)
	specDir := filepath.Join(VerifDir, "spec")
	ents, err := os.ReadDir(specDir)
	if err != nil {
		return nil, err
	}
	for _, e := range ents {
		if e.IsDir() {
			continue
		}
		n := e.Name()
		if strings.HasSuffix(n, ".tla") || strings.HasSuffix(n, ".cfg") || strings.HasSuffix(n, ".json") {
			b, err := os.ReadFile(filepath.Join(specDir, n))
			if err != nil {
				return nil, err
			}
			if err := os.WriteFile(filepath.Join(scratch, n), b, 0o644); err != nil {
				return nil, err
			}
		}
	}
	cfg := r.Cfg
	if cfg == "" {
		cfg = r.Module + ".cfg"
	}
	workers := r.Workers
	if workers == 0 {
		workers = 16
	}
	timeout := r.Timeout
	if timeout == 0 {
		timeout = 10 * time.Minute
	}
	heap := r.HeapGB
	if heap == 0 {
		heap = 4
	}
	args := []string{"-XX:+UseParallelGC", fmt.Sprintf("-Xmx%dg", heap), "-Xss512m", "-Dfile.encoding=UTF-8", "-Dsun.jnu.encoding=UTF-8", "-Dstdout.encoding=UTF-8"}
	if workers == 1 {
		args = append(args, "-XX:ParallelGCThreads=2")
	}
	if r.DFS {
		args = append(args, "-Dtlc2.tool.queue.IStateQueue=StateDeque")
	}
	args = append(args, "-cp", tlaJars, "tlc2.TLC",
		"-metadir", filepath.Join(scratch, "meta"),
		"-workers", strconv.Itoa(workers),
		"-config", cfg, "-noGenerateSpecTE")
	if !r.Deadlock {
		args = append(args, "-deadlock")
	}
	if r.Coverage {
		args = append(args, "-coverage", "1")
	}
	if r.Simulate != "" {
		args = append(args, "-simulate", r.Simulate)
		if r.Depth > 0 {
			args = append(args, "-depth", strconv.Itoa(r.Depth))
		}
		args = append(args, "-seed", strconv.FormatInt(r.Seed, 10))
	}
	args = append(args, r.Module+".tla")
	ctx, cancel := context.WithTimeout(context.Background(), timeout)
	defer cancel()
	cmd := exec.CommandContext(ctx, "java", args...)
	cmd.Dir = scratch
	cmd.Env = os.Environ()
	for k, v := range r.Env {
		cmd.Env = append(cmd.Env, k+"="+v)
	}
	var out bytes.Buffer
	cmd.Stdout = &out
	cmd.Stderr = &out
	t0 := time.Now()
	err = cmd.Run()
	res := &TLCResult{Out: out.String(), Wall: time.Since(t0), Cover: map[string]int64{}}
	if ctx.Err() == context.DeadlineExceeded {
		res.TimedOut = true
	}
	if ee, ok := err.(*exec.ExitError); ok {
		res.ExitCode = ee.ExitCode()
	} else if err != nil {
		return res, err
	}
	parseTLC(res)
	return res, nil
}

func parseTLC(res *TLCResult) {
	sc := bufio.NewScanner(strings.NewReader(res.Out))
	sc.Buffer(make([]byte, 1<<20), 1<<28)
	inErr := false
	for sc.Scan() {
		line := sc.Text()
		if m := reStates.FindStringSubmatch(line); m != nil {
			res.Generated, _ = strconv.ParseInt(m[1], 10, 64)
			res.Distinct, _ = strconv.ParseInt(m[2], 10, 64)
		}
		if m := reDepth.FindStringSubmatch(line); m != nil {
			res.Depth, _ = strconv.Atoi(m[1])
		}
		if m := reInv.FindStringSubmatch(line); m != nil {
			res.Violation = true
			res.ViolationOf = m[1]
		}
		if m := reProp.FindStringSubmatch(line); m != nil {
			res.Violation = true
			res.ViolationOf = m[1]
		}
		if strings.Contains(line, "Assumption") && strings.Contains(line, "is false") {
			res.Violation = true
			res.AssumeFalse = true
			res.ViolationOf = "ASSUME"
		}
		if m := reCover.FindStringSubmatch(line); m != nil {
			n, _ := strconv.ParseInt(m[4], 10, 64)
			res.Cover[m[1]] += n
		}
		if reAtAt.MatchString(line) {
			res.Lines = append(res.Lines, line)
		}
		if strings.HasPrefix(line, "Error:") {
			inErr = true
			if !strings.Contains(line, "is violated") && !strings.Contains(line, "The behavior up to this point") && !strings.Contains(line, "is false") {
				res.Errors = append(res.Errors, line)
			}
			continue
		}
		if inErr && strings.HasPrefix(line, "State ") {
			res.CexTrace = append(res.CexTrace, line)
		}
	}
}

// OK reports whether TLC finished normally without violation and error.
func (r *TLCResult) OK() bool {
	return r.ExitCode == 0 && !r.Violation && len(r.Errors) == 0 && !r.TimedOut
}

// Tail returns the last n lines of output for diagnostics.
func (r *TLCResult) Tail(n int) string {
	ls := strings.Split(strings.TrimRight(r.Out, "\n"), "\n")
	if len(ls) > n {
		ls = ls[len(ls)-n:]
	}
	return strings.Join(ls, "\n")
}

// ErrorText returns TLC's error section (from the first "Error:" line, coverage
// statistics excluded).
func (r *TLCResult) ErrorText(max int) string {
	ls := strings.Split(r.Out, "\n")
	var out []string
	on := false
	for _, l := range ls {
		if strings.HasPrefix(l, "Error:") {
			on = true
		}
		if strings.HasPrefix(l, "The coverage statistics") {
			on = false
		}
		if on {
			if len(l) > 400 {
				l = l[:400] + "…"
			}
			out = append(out, l)
			if len(out) >= max {
				break
			}
		}
	}
	if len(out) == 0 {
		return r.Tail(max)
	}
	return strings.Join(out, "\n")
}
