package core

import (
	"bufio"
	"encoding/json"
	"fmt"
	"os"
	"path/filepath"
	"regexp"
	"sort"
	"strconv"
	"strings"
	"sync"
	"time"
)

// Rec is one trace record (one observed public call or one short history).
type Rec = map[string]any

// Case is the input of one execution.  It must be JSON-serialisable and carry
// "kind" (which executor) so that it can be re-executed from a replay file.
type Case = map[string]any

// Executor runs one case against the real implementation and returns the
// observed record(s).  It never decides correctness.
type Executor func(c Case) []Rec

// Executors is filled by the driver packages (init functions).
var Executors = map[string]Executor{}

// ModelRun is an exhaustive / simulated TLC run on the specification itself.
type ModelRun struct {
	TLC         TLCRun
	MustCover   []string // actions that must have been taken at least once
	ExpectViol  string   // if non-empty, the model is EXPECTED to violate this invariant (documented design flaw); anything else is an error
	Description string
}

// Plan is what a property check does at one tier.
type Plan struct {
	Property string
	Tier     string
	Seed     int64
	Level    string // evidence level
	Models   []ModelRun
	EvalMod  string // TLA+ module evaluating the records (record mode)
	EvalEnv  map[string]string
	Cases    func(emit func(Case)) // case generator (deterministic given Seed)
	Isolated bool                  // run cases in worker processes (fatal crashes possible)
	// ObservationIsEvidence: the record itself documents the real code's behaviour beyond doubt (a race
	// detector report with both stacks); a mismatch that does not occur again when its case is
	// re-executed (scheduling) is still reported
	ObservationIsEvidence bool
	ReproTries            int // how often a mismatching case is re-executed to reproduce it (schedule-dependent events)
	Parallel              int // non-isolated cases: this many at a time (executors that spawn their own processes)
	CaseTimeout           time.Duration
	Rule                  string // evidence: how cases are generated and what non-trivial means
	NonTrivial            func(r Rec) bool
	Assumptions           []string
	// Behaviour-mode trace validation (optional): called after record mode with
	// the records; returns additional mismatches.
	Behaviour     func(p *Plan, recs []Rec) ([]Mismatch, *TLCResult, error)
	ExtraCoverage map[string]any
	// Histogram, when set, names the class a record is counted under in evidence coverage
	Histogram func(r Rec) string
	// Stages: additional (or alternative) batches of cases, each evaluated by its own
	// module / environment (e.g. one per fixture schema).
	Stages []Stage
}

// Stage is one batch of cases with its evaluator.
type Stage struct {
	Name    string
	EvalMod string
	EvalEnv map[string]string
	Cases   func(emit func(Case))
}

// Mismatch is a record the specification does not allow.
type Mismatch struct {
	Index int
	Class string
	Rec   Rec
}

// Outcome of a plan.
type Outcome struct {
	Exit int
}

func logf(format string, a ...any) {
	fmt.Fprintf(os.Stderr, format+"\n", a...)
}

// WriteNDJSON writes records to a file.
func WriteNDJSON(path string, recs []Rec) error {
	f, err := os.Create(path)
	if err != nil {
		return err
	}
	w := bufio.NewWriterSize(f, 1<<20)
	enc := json.NewEncoder(w)
	enc.SetEscapeHTML(false)
	for _, r := range recs {
		if _, has := r["case"]; has {
			// the case (input) is kept out of band: TLC evaluates the observation only
			c := Rec{}
			for k, v := range r {
				if k != "case" {
					c[k] = v
				}
			}
			r = c
		}
		if err := enc.Encode(r); err != nil {
			return err
		}
	}
	if err := w.Flush(); err != nil {
		return err
	}
	return f.Close()
}

var reBad = regexp.MustCompile(`<<"@@BAD", (\d+), "([^"]*)">>`)
var reN = regexp.MustCompile(`<<"@@N", (\d+)>>`)

// EvalRecords has TLC evaluate every record against the specification module
// (record mode).  Records are chunked and chunks run in parallel.
func EvalRecords(module string, env map[string]string, recs []Rec) ([]Mismatch, time.Duration, error) {
	if len(recs) == 0 {
		return nil, 0, nil
	}
	t0 := time.Now()
	// JVM start costs ~2.5 s: few large chunks for cheap records, up to 12 parallel
	// chunks for expensive ones
	chunk := len(recs)/12 + 1
	if chunk < 800 {
		chunk = 800
	}
	if chunk > 25000 {
		chunk = 25000
	}
	type job struct{ lo, hi int }
	var jobs []job
	for lo := 0; lo < len(recs); lo += chunk {
		hi := lo + chunk
		if hi > len(recs) {
			hi = len(recs)
		}
		jobs = append(jobs, job{lo, hi})
	}
	type res struct {
		mm  []Mismatch
		err error
	}
	out := make([]res, len(jobs))
	sem := make(chan struct{}, 12)
	done := make(chan int, len(jobs))
	for ji, j := range jobs {
		go func(ji int, j job) {
			sem <- struct{}{}
			defer func() { <-sem; done <- ji }()
			tmp, err := os.CreateTemp("", "vtrace-*.ndjson")
			if err != nil {
				out[ji].err = err
				return
			}
			tmp.Close()
			defer os.Remove(tmp.Name())
			if err := WriteNDJSON(tmp.Name(), recs[j.lo:j.hi]); err != nil {
				out[ji].err = err
				return
			}
			e := map[string]string{"TRACE": tmp.Name()}
			for k, v := range env {
				e[k] = v
			}
			r, err := RunTLC(TLCRun{Module: module, Cfg: "Eval.cfg", Env: e, Workers: 1, Timeout: 20 * time.Minute})
			if err != nil {
				out[ji].err = err
				return
			}
			n := -1
			for _, l := range r.Lines {
				if m := reN.FindStringSubmatch(l); m != nil {
					n, _ = strconv.Atoi(m[1])
				}
				if m := reBad.FindStringSubmatch(l); m != nil {
					i, _ := strconv.Atoi(m[1])
					out[ji].mm = append(out[ji].mm, Mismatch{Index: j.lo + i - 1, Class: m[2], Rec: recs[j.lo+i-1]})
				}
			}
			if n != j.hi-j.lo || len(r.Errors) > 0 || r.ExitCode != 0 {
				out[ji].err = fmt.Errorf("trace evaluation by TLC failed (module %s, exit %d, evaluated %d of %d):\n%s", module, r.ExitCode, n, j.hi-j.lo, r.ErrorText(25))
			}
		}(ji, j)
	}
	for range jobs {
		<-done
	}
	var all []Mismatch
	for _, o := range out {
		if o.err != nil {
			return nil, 0, o.err
		}
		all = append(all, o.mm...)
	}
	sort.Slice(all, func(i, j int) bool { return all[i].Index < all[j].Index })
	return all, time.Since(t0), nil
}

// ---------------------------------------------------------------- known findings

// Finding is one line of known_findings.jsonl.
type Finding struct {
	ID       string         `json:"id"`
	Property string         `json:"property"`
	Status   string         `json:"status"` // "known" | "fixed"
	Class    string         `json:"class"`  // spec-assigned mismatch class
	Match    map[string]any `json:"match"`  // must equal the record's sig fields
	What     string         `json:"what"`
	Commit   string         `json:"commit,omitempty"`
}

func LoadFindings() ([]Finding, error) {
	f, err := os.Open(filepath.Join(VerifDir, "known_findings.jsonl"))
	if err != nil {
		if os.IsNotExist(err) {
			return nil, nil
		}
		return nil, err
	}
	defer f.Close()
	var out []Finding
	sc := bufio.NewScanner(f)
	sc.Buffer(make([]byte, 1<<20), 1<<24)
	for sc.Scan() {
		l := strings.TrimSpace(sc.Text())
		if l == "" || strings.HasPrefix(l, "#") || strings.HasPrefix(l, "fixed:") {
			continue
		}
		var fd Finding
		if err := json.Unmarshal([]byte(l), &fd); err != nil {
			return nil, fmt.Errorf("known_findings.jsonl: %v: %s", err, l)
		}
		out = append(out, fd)
	}
	return out, nil
}

func canon(v any) string {
	b, _ := json.Marshal(v)
	return string(b)
}

// brief is canon truncated for log lines.
func brief(v any) string {
	s := canon(v)
	if len(s) > 700 {
		return s[:700] + "…"
	}
	return s
}

// Matches reports whether finding f covers mismatch m of property prop.
func (f Finding) Matches(prop string, m Mismatch) bool {
	if f.Status != "known" || f.Property != prop || f.Class != m.Class {
		return false
	}
	sig, _ := m.Rec["sig"].(map[string]any)
	for k, want := range f.Match {
		var got any
		if sig != nil {
			got = sig[k]
		}
		if got == nil {
			got = m.Rec[k]
		}
		if canon(got) != canon(want) {
			return false
		}
	}
	return true
}

// ---------------------------------------------------------------- evidence

type Evidence struct {
	PropertyID  string         `json:"property_id"`
	Tier        string         `json:"tier"`
	Seed        int64          `json:"seed"`
	Level       string         `json:"level"`
	Coverage    map[string]any `json:"coverage"`
	Assumptions []string       `json:"assumptions"`
	WallS       float64        `json:"wall_s"`
	Violations  int            `json:"violations"`
}

func WriteEvidence(e Evidence) error {
	dir := filepath.Join(VerifDir, "evidence")
	os.MkdirAll(dir, 0o755)
	if e.Assumptions == nil {
		e.Assumptions = []string{}
	}
	b, err := json.MarshalIndent(e, "", " ")
	if err != nil {
		return err
	}
	return os.WriteFile(filepath.Join(dir, e.PropertyID+".json"), append(b, '\n'), 0o644)
}

// ---------------------------------------------------------------- running a plan

func caseKey(c Case) string { return canon(c) }

// Run executes a plan: model runs, case generation + execution, trace
// evaluation by TLC, known-finding matching, reproduction, evidence.
func Run(p *Plan) int {
	t0 := time.Now()
	cov := map[string]any{}
	var states, transitions int64
	modelInfo := []map[string]any{}
	for _, m := range p.Models {
		m.TLC.Coverage = m.TLC.Coverage || len(m.MustCover) > 0
		r, err := RunTLC(m.TLC)
		if err != nil {
			logf("INCONCLUSIVE: TLC could not run for %s: %v", m.TLC.Module, err)
			return 2
		}
		info := map[string]any{"module": m.TLC.Module, "cfg": m.TLC.Cfg, "generated": r.Generated, "distinct": r.Distinct, "depth": r.Depth, "wall_s": r.Wall.Seconds(), "what": m.Description}
		if m.ExpectViol != "" {
			if !(r.Violation && r.ViolationOf == m.ExpectViol) {
				logf("INCONCLUSIVE: model %s/%s was expected to violate %s (documented design flaw) but TLC said:\n%s", m.TLC.Module, m.TLC.Cfg, m.ExpectViol, r.Tail(25))
				return 2
			}
			info["expected_violation"] = m.ExpectViol
		} else if !r.OK() {
			if r.Violation {
				// a violation on the model is a defect of the specification / design, not of the code
				logf("INCONCLUSIVE: specification %s/%s violates %s on the model itself (spec defect, not a code verdict):\n%s", m.TLC.Module, m.TLC.Cfg, r.ViolationOf, r.ErrorText(60))
			} else {
				logf("INCONCLUSIVE: TLC failed on %s/%s (exit %d):\n%s", m.TLC.Module, m.TLC.Cfg, r.ExitCode, r.ErrorText(60))
			}
			return 2
		}
		for _, a := range m.MustCover {
			if r.Cover[a] == 0 {
				logf("INCONCLUSIVE: action %s of %s never taken (vacuous model run)", a, m.TLC.Module)
				return 2
			}
		}
		if len(r.Cover) > 0 {
			info["action_coverage"] = r.Cover
		}
		states += r.Distinct
		transitions += r.Generated
		modelInfo = append(modelInfo, info)
		logf("model %s/%s: %d generated, %d distinct, %.1fs", m.TLC.Module, m.TLC.Cfg, r.Generated, r.Distinct, r.Wall.Seconds())
	}
	// model runs a plan made itself while it was built (the states are its cases)
	if ms, ok := p.ExtraCoverage["models"].([]any); ok {
		for _, x := range ms {
			if mi, ok := x.(map[string]any); ok {
				if d, ok := mi["distinct"].(int64); ok {
					states += d
				}
				if g, ok := mi["generated"].(int64); ok {
					transitions += g
				}
				modelInfo = append(modelInfo, mi)
			}
		}
	}
	cov["models"] = modelInfo
	cov["states"] = states
	cov["transitions"] = transitions

	// cases, per stage
	stages := append([]Stage{}, p.Stages...)
	if p.Cases != nil {
		stages = append([]Stage{{Name: "main", EvalMod: p.EvalMod, EvalEnv: p.EvalEnv, Cases: p.Cases}}, stages...)
	}
	var cases []Case
	var recs []Rec
	var mm []Mismatch
	for si, st := range stages {
		var scases []Case
		st.Cases(func(c Case) { scases = append(scases, Normalize(c)) })
		tExec := time.Now()
		var srecs []Rec
		if p.Isolated {
			var err error
			srecs, err = RunIsolated(scases, p.CaseTimeout)
			if err != nil {
				logf("INCONCLUSIVE: worker supervision failed: %v", err)
				return 2
			}
		} else {
			srecs = execAll(scases, p.Parallel)
		}
		for _, r := range srecs {
			r["stage"] = si
		}
		logf("stage %s: executed %d cases -> %d records in %.1fs", st.Name, len(scases), len(srecs), time.Since(tExec).Seconds())
		smm, evalWall, err := EvalRecords(st.EvalMod, st.EvalEnv, srecs)
		if err != nil {
			logf("INCONCLUSIVE: %v", err)
			return 2
		}
		logf("stage %s: TLC evaluated %d records in %.1fs: %d not allowed by the specification", st.Name, len(srecs), evalWall.Seconds(), len(smm))
		for i := range smm {
			smm[i].Index += len(recs)
		}
		cases = append(cases, scases...)
		recs = append(recs, srecs...)
		mm = append(mm, smm...)
	}
	var behaviourRes *TLCResult
	if p.Behaviour != nil {
		bm, br, err := p.Behaviour(p, recs)
		if err != nil {
			logf("INCONCLUSIVE: behaviour-mode validation: %v", err)
			return 2
		}
		behaviourRes = br
		mm = append(mm, bm...)
	}
	for _, m := range mm {
		if strings.HasPrefix(m.Class, "harness-") {
			logf("INCONCLUSIVE: harness produced a malformed record (%s): %s", m.Class, brief(m.Rec))
			return 2
		}
	}

	// classify
	findings, err := LoadFindings()
	if err != nil {
		logf("INCONCLUSIVE: %v", err)
		return 2
	}
	knownHit := map[string]int{}
	var unknown []Mismatch
	for _, m := range mm {
		hit := false
		for _, f := range findings {
			if f.Matches(p.Property, m) {
				knownHit[f.ID]++
				hit = true
				break
			}
		}
		if !hit {
			unknown = append(unknown, m)
		}
	}
	for _, f := range findings {
		if n := knownHit[f.ID]; n > 0 {
			fmt.Printf("KNOWN-FINDING: property=%s %s [%s, %d record(s)]\n", p.Property, f.What, f.ID, n)
		}
	}

	// reproduce unknown mismatches: re-execute their cases (batch), re-evaluate
	violations := 0
	exit := 0
	if len(unknown) > 0 {
		var rcases []Case
		seenCase := map[string]bool{}
		for _, m := range unknown {
			c, _ := m.Rec["case"].(Case)
			if c == nil {
				continue
			}
			k := caseKey(c)
			if !seenCase[k] {
				seenCase[k] = true
				rcases = append(rcases, c)
			}
		}
		repro := map[string]bool{}
		tries := p.ReproTries
		if tries < 1 {
			tries = 1
		}
		stageOf := map[string]int{}
		for _, m := range unknown {
			if c, _ := m.Rec["case"].(Case); c != nil {
				si, _ := m.Rec["stage"].(int)
				stageOf[caseKey(c)] = si
			}
		}
		for try := 0; try < tries && len(rcases) > 0; try++ {
			var again []Rec
			if p.Isolated {
				again, _ = RunIsolated(rcases, p.CaseTimeout)
			} else {
				again = execAll(rcases, p.Parallel)
			}
			var mm2 []Mismatch
			for si, st := range stages {
				var part []Rec
				for _, r := range again {
					c, _ := r["case"].(Case)
					if stageOf[caseKey(c)] == si {
						part = append(part, r)
					}
				}
				x, _, err := EvalRecords(st.EvalMod, st.EvalEnv, part)
				if err != nil {
					logf("INCONCLUSIVE: re-evaluation failed: %v", err)
					return 2
				}
				mm2 = append(mm2, x...)
			}
			if p.Behaviour != nil {
				bm, _, err := p.Behaviour(p, again)
				if err == nil {
					mm2 = append(mm2, bm...)
				}
			}
			for _, x := range mm2 {
				c, _ := x.Rec["case"].(Case)
				repro[caseKey(c)+"|"+x.Class] = true
			}
			// schedule-dependent events (ReproTries > 1): try the cases not yet reproduced again
			var left []Case
			if try+1 < tries {
				reproduced := map[string]bool{}
				for _, m := range unknown {
					if mc, _ := m.Rec["case"].(Case); mc != nil {
						if k := caseKey(mc); repro[k+"|"+m.Class] {
							reproduced[k] = true
						}
					}
				}
				for _, c := range rcases {
					if !reproduced[caseKey(c)] {
						left = append(left, c)
					}
				}
			}
			rcases = left
		}
		perSig := map[string]int{}
		for _, m := range unknown {
			c, _ := m.Rec["case"].(Case)
			if c == nil || !repro[caseKey(c)+"|"+m.Class] {
				if c == nil || !p.ObservationIsEvidence {
					logf("INCONCLUSIVE: mismatch %s could not be reproduced from its case: %s", m.Class, brief(m.Rec))
					if exit == 0 {
						exit = 2
					}
					continue
				}
				logf("note: mismatch %s did not occur again in %d re-executions of its case; the recorded observation stands", m.Class, tries)
			}
			violations++
			exit = 1
			sigKey := m.Class + canon(m.Rec["sig"])
			perSig[sigKey]++
			if perSig[sigKey] > 2 {
				continue // same signature: counted, not printed again
			}
			rp := filepath.Join(VerifDir, "evidence", "replay")
			os.MkdirAll(rp, 0o755)
			name := fmt.Sprintf("%s-%s-%d.json", p.Property, sanitize(m.Class), violations)
			path := filepath.Join(rp, name)
			si, _ := m.Rec["stage"].(int)
			b, _ := json.MarshalIndent(map[string]any{"property": p.Property, "class": m.Class, "eval_module": stages[si].EvalMod, "eval_env": stages[si].EvalEnv, "isolated": p.Isolated, "case": c, "record": m.Rec}, "", " ")
			os.WriteFile(path, b, 0o644)
			fmt.Printf("VIOLATION property=%s replay=%s\n", p.Property, path)
			logf("  class=%s sig=%s", m.Class, canon(m.Rec["sig"]))
		}
	}

	// evidence
	distinct := map[string]bool{}
	nontriv := 0
	for _, r := range recs {
		k := canon(r["case"]) + "|" + canon(r["step"])
		if distinct[k] {
			continue
		}
		distinct[k] = true
		if p.NonTrivial == nil || p.NonTrivial(r) {
			nontriv++
		}
	}
	cov["evaluations"] = len(recs)
	cov["distinct_nontrivial"] = nontriv
	cov["rule"] = p.Rule
	cov["traces_validated_against_impl"] = len(recs)
	cov["cases_executed"] = len(cases)
	cov["records_not_allowed_by_spec"] = len(mm)
	cov["known_finding_hits"] = knownHit
	if behaviourRes != nil {
		cov["behaviour_mode"] = map[string]any{"generated": behaviourRes.Generated, "distinct": behaviourRes.Distinct, "depth": behaviourRes.Depth}
	}
	for k, v := range p.ExtraCoverage {
		if k != "models" {
			cov[k] = v
		}
	}
	if p.Histogram != nil {
		h := map[string]int{}
		for _, r := range recs {
			h[p.Histogram(r)]++
		}
		cov["histogram"] = h
	}
	var samples []any
	step := len(recs)/3 + 1
	for i := 0; i < len(recs); i += step {
		samples = append(samples, slim(recs[i]))
	}
	if len(samples) == 0 {
		samples = append(samples, "no implementation records (model-only run)")
	}
	cov["samples"] = samples
	ev := Evidence{PropertyID: p.Property, Tier: p.Tier, Seed: p.Seed, Level: p.Level, Coverage: cov,
		Assumptions: p.Assumptions, WallS: time.Since(t0).Seconds(), Violations: violations}
	if err := WriteEvidence(ev); err != nil {
		logf("INCONCLUSIVE: cannot write evidence: %v", err)
		return 2
	}
	logf("%s %s: %d records, %d mismatches (%d known), %d violations, %.1fs", p.Property, p.Tier, len(recs), len(mm), len(mm)-len(unknown), violations, time.Since(t0).Seconds())
	return exit
}

func slim(r Rec) Rec {
	b, _ := json.Marshal(r)
	if len(b) < 3000 {
		return r
	}
	out := Rec{}
	for k, v := range r {
		vb, _ := json.Marshal(v)
		if len(vb) > 600 {
			out[k] = string(vb[:600]) + "…"
		} else {
			out[k] = v
		}
	}
	return out
}

func sanitize(s string) string {
	return regexp.MustCompile(`[^a-zA-Z0-9_-]+`).ReplaceAllString(s, "_")
}

// ExecCase runs one case in-process, recovering panics of the executor itself
// (executors recover panics of the library per call and record them).
// execAll runs the cases in order, n at a time, and keeps the order of the records.
func execAll(cases []Case, n int) []Rec {
	if n <= 1 {
		var out []Rec
		for _, c := range cases {
			out = append(out, ExecCase(c)...)
		}
		return out
	}
	res := make([][]Rec, len(cases))
	sem := make(chan struct{}, n)
	var wg sync.WaitGroup
	for i := range cases {
		wg.Add(1)
		sem <- struct{}{}
		go func(i int) {
			defer wg.Done()
			defer func() { <-sem }()
			res[i] = ExecCase(cases[i])
		}(i)
	}
	wg.Wait()
	var out []Rec
	for _, r := range res {
		out = append(out, r...)
	}
	return out
}

// RepoDir: the tree of freeconf/yang the harness was built against (/repo; a scratch
// worktree when seeded changes are tried in parallel, see tools/seedrun.sh)
var RepoDir = func() string {
	if d := os.Getenv("VERIF_REPO"); d != "" {
		return d
	}
	return "/repo"
}()

func ExecCase(c Case) (out []Rec) {
	kind, _ := c["kind"].(string)
	ex := Executors[kind]
	if ex == nil {
		return []Rec{{"chk": "harness", "case": c, "sig": Rec{"err": "no executor " + kind}}}
	}
	recs := ex(c)
	for i, r := range recs {
		r["case"] = c
		if _, ok := r["step"]; !ok {
			r["step"] = i
		}
	}
	return recs
}

// TempFiles are removed when vcheck exits.
var TempFiles []string

// Normalize passes a case through JSON so that executors see exactly what a
// replay file or a worker process would give them.
func Normalize(c Case) Case {
	b, err := json.Marshal(c)
	if err != nil {
		panic(err)
	}
	var out Case
	if err := json.Unmarshal(b, &out); err != nil {
		panic(err)
	}
	return out
}

// Recode converts a generic JSON value into a typed one.
func Recode(in any, out any) {
	b, _ := json.Marshal(in)
	json.Unmarshal(b, out)
}
