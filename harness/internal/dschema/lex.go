package dschema

import (
	"encoding/json"
	"fmt"
	"os"
	"path/filepath"
	"sort"
	"strings"
	"sync"
	"time"

	"verif/internal/core"

	"github.com/freeconf/yang/meta"
	"github.com/freeconf/yang/parser"
)

func init() {
	core.Executors["lex"] = execLex
	core.Executors["order"] = execOrder
	core.Executors["determinism"] = execDeterminism
}

// Triple is one (argument, style, written text) as defined by spec/YangLex.tla.
type Triple struct {
	Arg   []string `json:"arg"`
	Style string   `json:"style"`
	Text  []string `json:"text"`
}

var charOf = map[string]string{"dq": "\"", "sq": "'", "bs": "\\", "nl": "\n", "tab": "\t", "sp": " ", "e'": "é"}

// Chars turns the spec's character names into text.
func Chars(cs []string) string {
	var sb strings.Builder
	for _, c := range cs {
		if r, ok := charOf[c]; ok {
			sb.WriteString(r)
		} else {
			sb.WriteString(c)
		}
	}
	return sb.String()
}

var (
	triplesOnce sync.Once
	triples     []Triple
	triplesErr  error
)

// SpecTriples obtains the renderings from the specification through TLC.
func SpecTriples() ([]Triple, error) {
	triplesOnce.Do(func() {
		dir, err := os.MkdirTemp("", "vlex-")
		if err != nil {
			triplesErr = err
			return
		}
		defer os.RemoveAll(dir)
		out := filepath.Join(dir, "t.json")
		r, err := core.RunTLC(core.TLCRun{Module: "YangLexExport", Cfg: "Eval.cfg", Env: map[string]string{"OUT": out}, Workers: 1, Timeout: 3 * time.Minute})
		if err != nil {
			triplesErr = err
			return
		}
		b, err := os.ReadFile(out)
		if err != nil {
			triplesErr = fmt.Errorf("YangLexExport wrote nothing: %v\n%s", err, r.Tail(15))
			return
		}
		triplesErr = json.Unmarshal(b, &triples)
		sort.Slice(triples, func(i, j int) bool {
			return triples[i].Style+Chars(triples[i].Arg) < triples[j].Style+Chars(triples[j].Arg)
		})
	})
	return triples, triplesErr
}

// Slot: one statement position where an argument can be written and read back.
type Slot struct {
	Name string
	// Text: any argument may be written here; otherwise Fixed lists the legal values
	Text  bool
	Fixed []string
	// Module renders the module with the statement `kw ARG` written as stmt
	Module func(stmt string) string
	Kw     string
	Get    func(m *meta.Module) (string, bool)
}

const lexHead = "module L {\n namespace \"urn:l\";\n prefix \"l\";\n"

func leafT(m *meta.Module) *meta.Leaf {
	c, _ := m.DataDefinition("c").(*meta.Container)
	if c == nil {
		return nil
	}
	l, _ := c.DataDefinition("t").(*meta.Leaf)
	return l
}

func contC(m *meta.Module) *meta.Container {
	c, _ := m.DataDefinition("c").(*meta.Container)
	return c
}

func listL(m *meta.Module) *meta.List {
	c := contC(m)
	if c == nil {
		return nil
	}
	l, _ := c.DataDefinition("l").(*meta.List)
	return l
}

const lexBody = " container c {\n  leaf t { type string; %LEAF% }\n  leaf sib { type string; }\n  list l { key \"k\"; leaf k { type string; } leaf u { type string; } %LIST% }\n  %CONT%\n }\n"

func mod(top, cont, leaf, list string) string {
	b := strings.ReplaceAll(lexBody, "%LEAF%", leaf)
	b = strings.ReplaceAll(b, "%LIST%", list)
	b = strings.ReplaceAll(b, "%CONT%", cont)
	return lexHead + " revision 2024-01-01;\n" + top + "\n" + b + "}"
}

// Slots: the statement positions covered.
var Slots = []Slot{
	{Name: "module-description", Text: true, Kw: "description", Module: func(s string) string { return mod(s, "", "", "") },
		Get: func(m *meta.Module) (string, bool) { return m.Description(), true }},
	{Name: "module-contact", Text: true, Kw: "contact", Module: func(s string) string { return mod(s, "", "", "") },
		Get: func(m *meta.Module) (string, bool) { return m.Contact(), true }},
	{Name: "module-organization", Text: true, Kw: "organization", Module: func(s string) string { return mod(s, "", "", "") },
		Get: func(m *meta.Module) (string, bool) { return m.Organization(), true }},
	{Name: "module-reference", Text: true, Kw: "reference", Module: func(s string) string { return mod(s, "", "", "") },
		Get: func(m *meta.Module) (string, bool) { return m.Reference(), true }},
	{Name: "revision-description", Text: true, Kw: "description", Module: func(s string) string {
		return lexHead + " revision 2024-01-01 { " + s + " }\n" + strings.NewReplacer("%LEAF%", "", "%LIST%", "", "%CONT%", "").Replace(lexBody) + "}"
	}, Get: func(m *meta.Module) (string, bool) {
		if m.Revision() == nil {
			return "", false
		}
		return m.Revision().Description(), true
	}},
	{Name: "container-description", Text: true, Kw: "description", Module: func(s string) string { return mod("", s, "", "") },
		Get: func(m *meta.Module) (string, bool) { c := contC(m); return c.Description(), c != nil }},
	{Name: "container-reference", Text: true, Kw: "reference", Module: func(s string) string { return mod("", s, "", "") },
		Get: func(m *meta.Module) (string, bool) { c := contC(m); return c.Reference(), c != nil }},
	{Name: "container-presence", Text: true, Kw: "presence", Module: func(s string) string { return mod("", s, "", "") },
		Get: func(m *meta.Module) (string, bool) { c := contC(m); return c.Presence(), c != nil }},
	{Name: "leaf-description", Text: true, Kw: "description", Module: func(s string) string { return mod("", "", s, "") },
		Get: func(m *meta.Module) (string, bool) { l := leafT(m); return l.Description(), l != nil }},
	{Name: "leaf-units", Text: true, Kw: "units", Module: func(s string) string { return mod("", "", s, "") },
		Get: func(m *meta.Module) (string, bool) { l := leafT(m); return l.Units(), l != nil }},
	{Name: "leaf-default", Text: true, Kw: "default", Module: func(s string) string { return mod("", "", s, "") },
		Get: func(m *meta.Module) (string, bool) {
			l := leafT(m)
			if l == nil || !l.HasDefault() {
				return "", l != nil
			}
			return fmt.Sprint(l.DefaultValue()), true
		}},
	{Name: "must-error-message", Text: true, Kw: "error-message", Module: func(s string) string { return mod("", "", "must \"../sib\" { "+s+" }", "") },
		Get: func(m *meta.Module) (string, bool) {
			l := leafT(m)
			if l == nil || len(l.Musts()) != 1 {
				return "", false
			}
			return l.Musts()[0].ErrorMessage(), true
		}},
	{Name: "must-error-app-tag", Text: true, Kw: "error-app-tag", Module: func(s string) string { return mod("", "", "must \"../sib\" { "+s+" }", "") },
		Get: func(m *meta.Module) (string, bool) {
			l := leafT(m)
			if l == nil || len(l.Musts()) != 1 {
				return "", false
			}
			return l.Musts()[0].ErrorAppTag(), true
		}},
	{Name: "must-expression", Text: true, Kw: "must", Module: func(s string) string { return mod("", "", s, "") },
		Get: func(m *meta.Module) (string, bool) {
			l := leafT(m)
			if l == nil || len(l.Musts()) != 1 {
				return "", false
			}
			return l.Musts()[0].Expression(), true
		}},
	{Name: "when-expression", Text: true, Kw: "when", Module: func(s string) string { return mod("", "", s, "") },
		Get: func(m *meta.Module) (string, bool) {
			l := leafT(m)
			if l == nil || l.When() == nil {
				return "", false
			}
			return l.When().Expression(), true
		}},
	// what the statement writes itself wins over what its typedef would hand down
	{Name: "leaf-units-over-typedef-units", Text: true, Kw: "units", Module: func(s string) string {
		return mod("typedef tdu { type string; units \"from-typedef\"; default \"tdd\"; }", "leaf tu { type tdu; "+s+" }", "", "")
	},
		Get: func(m *meta.Module) (string, bool) {
			c := contC(m)
			if c == nil {
				return "", false
			}
			l, _ := c.DataDefinition("tu").(*meta.Leaf)
			if l == nil {
				return "", false
			}
			return l.Units(), true
		}},
	{Name: "leaf-default-over-typedef-default", Text: true, Kw: "default", Module: func(s string) string {
		return mod("typedef tdu { type string; units \"from-typedef\"; default \"tdd\"; }", "leaf tu { type tdu; "+s+" }", "", "")
	},
		Get: func(m *meta.Module) (string, bool) {
			c := contC(m)
			if c == nil {
				return "", false
			}
			l, _ := c.DataDefinition("tu").(*meta.Leaf)
			if l == nil || !l.HasDefault() {
				return "", false
			}
			return l.Default(), true
		}},
	{Name: "typedef-units", Text: true, Kw: "units", Module: func(s string) string { return mod("typedef td { type string; "+s+" }", "", "", "") },
		Get: func(m *meta.Module) (string, bool) { t := m.Typedefs()["td"]; return t.Units(), t != nil }},
	{Name: "feature-description", Text: true, Kw: "description", Module: func(s string) string { return mod("feature ft { "+s+" }", "", "", "") },
		Get: func(m *meta.Module) (string, bool) { f := m.Features()["ft"]; return f.Description(), f != nil }},
	{Name: "identity-description", Text: true, Kw: "description", Module: func(s string) string { return mod("identity idt { "+s+" }", "", "", "") },
		Get: func(m *meta.Module) (string, bool) { f := m.Identities()["idt"]; return f.Description(), f != nil }},
	{Name: "grouping-description", Text: true, Kw: "description", Module: func(s string) string { return mod("grouping gp { "+s+" leaf gl { type string; } }", "", "", "") },
		Get: func(m *meta.Module) (string, bool) { g := m.Groupings()["gp"]; return g.Description(), g != nil }},
	{Name: "rpc-description", Text: true, Kw: "description", Module: func(s string) string { return mod("rpc op { "+s+" }", "", "", "") },
		Get: func(m *meta.Module) (string, bool) { a := m.Actions()["op"]; return a.Description(), a != nil }},
	{Name: "notification-description", Text: true, Kw: "description", Module: func(s string) string { return mod("notification nt { "+s+" }", "", "", "") },
		Get: func(m *meta.Module) (string, bool) { a := m.Notifications()["nt"]; return a.Description(), a != nil }},
	{Name: "extension-argument", Text: true, Kw: "l:ext", Module: func(s string) string {
		return mod("extension ext { argument \"v\"; }", "", s, "")
	}, Get: func(m *meta.Module) (string, bool) {
		l := leafT(m)
		if l == nil || len(l.Extensions()) != 1 {
			return "", false
		}
		return l.Extensions()[0].Argument(), true
	}},
	{Name: "enum-description", Text: true, Kw: "description", Module: func(s string) string {
		return mod("", "leaf en { type enumeration { enum one { "+s+" } } }", "", "")
	}, Get: func(m *meta.Module) (string, bool) {
		c := contC(m)
		if c == nil {
			return "", false
		}
		l, _ := c.DataDefinition("en").(*meta.Leaf)
		if l == nil || len(l.Type().Enums()) != 1 {
			return "", false
		}
		return l.Type().Enums()[0].Description(), true
	}},
	// statements with a closed set of values: every legal quoting of each value
	{Name: "namespace", Fixed: []string{"urn:x:y", "http://example.com/a?b=c"}, Kw: "namespace", Module: func(s string) string {
		return "module L {\n " + s + "\n prefix \"l\";\n revision 2024-01-01;\n leaf z { type string; }\n}"
	}, Get: func(m *meta.Module) (string, bool) { return m.Namespace(), true }},
	{Name: "prefix", Fixed: []string{"l", "my-pfx"}, Kw: "prefix", Module: func(s string) string {
		return "module L {\n namespace \"urn:l\";\n " + s + "\n revision 2024-01-01;\n leaf z { type string; }\n}"
	}, Get: func(m *meta.Module) (string, bool) { return m.Prefix(), true }},
	{Name: "yang-version", Fixed: []string{"1.1", "1"}, Kw: "yang-version", Module: func(s string) string {
		return "module L {\n " + s + "\n namespace \"urn:l\";\n prefix \"l\";\n revision 2024-01-01;\n leaf z { type string; }\n}"
	}, Get: func(m *meta.Module) (string, bool) { return m.Version(), true }},
	{Name: "revision-date", Fixed: []string{"2024-01-01", "1999-12-31"}, Kw: "revision", Module: func(s string) string {
		return lexHead + " " + s + "\n leaf z { type string; }\n}"
	}, Get: func(m *meta.Module) (string, bool) {
		if m.Revision() == nil {
			return "", false
		}
		return m.Revision().Ident(), true
	}},
	{Name: "leaf-config", Fixed: []string{"true", "false"}, Kw: "config", Module: func(s string) string { return mod("", "", s, "") },
		Get: func(m *meta.Module) (string, bool) { l := leafT(m); return fmt.Sprint(l.Config()), l != nil }},
	{Name: "leaf-mandatory", Fixed: []string{"true", "false"}, Kw: "mandatory", Module: func(s string) string { return mod("", "", s, "") },
		Get: func(m *meta.Module) (string, bool) { l := leafT(m); return fmt.Sprint(l.Mandatory()), l != nil }},
	{Name: "leaf-status", Fixed: []string{"current", "deprecated", "obsolete"}, Kw: "status", Module: func(s string) string { return mod("", "", s, "") },
		Get: func(m *meta.Module) (string, bool) {
			l := leafT(m)
			if l == nil {
				return "", false
			}
			return []string{"current", "deprecated", "obsolete"}[int(l.Status())%3], true
		}},
	{Name: "list-min-elements", Fixed: []string{"0", "3"}, Kw: "min-elements", Module: func(s string) string { return mod("", "", "", s) },
		Get: func(m *meta.Module) (string, bool) { l := listL(m); return fmt.Sprint(l.MinElements()), l != nil }},
	{Name: "list-max-elements", Fixed: []string{"1", "100"}, Kw: "max-elements", Module: func(s string) string { return mod("", "", "", s) },
		Get: func(m *meta.Module) (string, bool) { l := listL(m); return fmt.Sprint(l.MaxElements()), l != nil }},
	{Name: "list-ordered-by", Fixed: []string{"user", "system"}, Kw: "ordered-by", Module: func(s string) string { return mod("", "", "", s) },
		Get: func(m *meta.Module) (string, bool) {
			l := listL(m)
			if l == nil {
				return "", false
			}
			return []string{"system", "user"}[int(l.OrderedBy())%2], true
		}},
	{Name: "list-unique", Fixed: []string{"u", "k u"}, Kw: "unique", Module: func(s string) string { return mod("", "", "", s) },
		Get: func(m *meta.Module) (string, bool) {
			l := listL(m)
			if l == nil || len(l.Unique()) != 1 {
				return "", false
			}
			return strings.Join(l.Unique()[0], " "), true
		}},
	{Name: "list-key", Fixed: []string{"k", "k u"}, Kw: "key", Module: func(s string) string {
		return lexHead + " revision 2024-01-01;\n list l { " + s + " leaf k { type string; } leaf u { type string; } }\n}"
	}, Get: func(m *meta.Module) (string, bool) {
		l, _ := m.DataDefinition("l").(*meta.List)
		if l == nil {
			return "", false
		}
		var ks []string
		for _, k := range l.KeyMeta() {
			ks = append(ks, k.Ident())
		}
		return strings.Join(ks, " "), true
	}},
	{Name: "enum-name-value", Fixed: []string{"5", "0", "-3"}, Kw: "value", Module: func(s string) string {
		return mod("", "leaf en { type enumeration { enum one { "+s+" } } }", "", "")
	}, Get: func(m *meta.Module) (string, bool) {
		c := contC(m)
		if c == nil {
			return "", false
		}
		l, _ := c.DataDefinition("en").(*meta.Leaf)
		if l == nil || len(l.Type().Enums()) != 1 {
			return "", false
		}
		return fmt.Sprint(l.Type().Enums()[0].Value()), true
	}},
}

var slotByName = map[string]*Slot{}

func init() {
	for i := range Slots {
		slotByName[Slots[i].Name] = &Slots[i]
	}
}

// stmtText writes `kw ARG;` with the given white space / comment variant.
func stmtText(kw, argText, ws string) string {
	switch ws {
	case "comment-before":
		return kw + " /* c; \" */ " + argText + ";"
	case "comment-after":
		return kw + " " + argText + " /* c */ ;"
	case "newlines":
		return kw + "\n      " + argText + "\n   ;"
	case "line-comment":
		return kw + " // c \" {\n " + argText + ";"
	case "tabs":
		return kw + "\t" + argText + "\t;"
	}
	return kw + " " + argText + ";"
}

// case {kind:"lex", slot, arg: [chars], style, text: [chars], ws}
func execLex(c core.Case) []core.Rec {
	var arg, text []string
	core.Recode(c["arg"], &arg)
	core.Recode(c["text"], &text)
	slot := slotByName[c["slot"].(string)]
	style, _ := c["style"].(string)
	ws, _ := c["ws"].(string)
	argS, textS := Chars(arg), Chars(text)
	body := textS
	if len(textS) >= 2 && (textS[0] == '"' || textS[0] == '\'') {
		body = textS[1 : len(textS)-1]
	}
	res := core.Rec{"panic": false, "err": false, "msg": ""}
	rec := core.Rec{"chk": "lex", "slot": slot.Name, "style": style, "ws": ws, "arg": argS, "written": textS, "res": res, "readback": "",
		"rb_is_text": false, "rb_is_body": false,
		"sig": core.Rec{"slot": slot.Name, "style": style, "ws": ws, "chars": charClasses(arg), "concat": strings.Contains(style, "+"), "empty": len(arg) == 0}}
	func() {
		defer func() {
			if r := recover(); r != nil {
				res["panic"] = true
				res["msg"] = fmt.Sprint(r)
			}
		}()
		m, err := parser.LoadModuleFromString(MemOpener(nil), slot.Module(stmtText(slot.Kw, textS, ws)))
		if err != nil {
			res["err"] = true
			res["msg"] = err.Error()
			return
		}
		rb, ok := slot.Get(m)
		if !ok {
			res["err"] = true
			res["msg"] = "statement not found in compiled module"
			return
		}
		rec["readback"] = rb
		rec["rb_is_text"] = rb == textS && rb != argS
		rec["rb_is_body"] = rb == body && rb != argS
	}()
	if m := fmt.Sprint(res["msg"]); len(m) > 140 {
		res["msg"] = m[:140]
	}
	return []core.Rec{rec}
}

// charClasses: which special characters the argument holds (for finding signatures).
func charClasses(arg []string) string {
	seen := map[string]bool{}
	for _, c := range arg {
		switch c {
		case "a", "1", "n", "t":
		default:
			seen[c] = true
		}
	}
	var out []string
	for c := range seen {
		out = append(out, c)
	}
	sort.Strings(out)
	return strings.Join(out, ",")
}

// case {kind:"order", what, names: [names in textual order], kinds: [...], drop}
// what = "siblings" (default): mixed sibling definitions of a container, optionally one of them
// taken away by a deviation (drop); "revisions" | "musts" | "enums" | "bits" | "keys" | "unique" |
// "iffeatures" | "lldefaults" | "includes": the statements of one kind in the order written
func execOrder(c core.Case) []core.Rec {
	var names, kinds []string
	core.Recode(c["names"], &names)
	core.Recode(c["kinds"], &kinds)
	what, _ := c["what"].(string)
	if what == "" {
		what = "siblings"
	}
	drop, _ := c["drop"].(string)
	want := append([]string{}, names...)
	var sb strings.Builder
	var get func(m *meta.Module) []string
	leafOf := func(m *meta.Module, n string) *meta.Leaf {
		if cc := contC(m); cc != nil {
			l, _ := cc.DataDefinition(n).(*meta.Leaf)
			return l
		}
		return nil
	}
	switch what {
	case "siblings":
		sb.WriteString(lexHead + " revision 2024-01-01;\n container c {\n")
		for i, n := range names {
			switch kinds[i] {
			case "leaf":
				fmt.Fprintf(&sb, "  leaf %s { type string; }\n", n)
			case "container":
				fmt.Fprintf(&sb, "  container %s { leaf x { type string; } }\n", n)
			case "list":
				fmt.Fprintf(&sb, "  list %s { key \"k\"; leaf k { type string; } }\n", n)
			case "leaf-list":
				fmt.Fprintf(&sb, "  leaf-list %s { type string; }\n", n)
			case "choice":
				fmt.Fprintf(&sb, "  choice %s { leaf %s-a { type string; } leaf %s-b { type string; } }\n", n, n, n)
			case "anydata":
				fmt.Fprintf(&sb, "  anydata %s;\n", n)
			}
		}
		sb.WriteString(" }\n")
		if drop != "" {
			fmt.Fprintf(&sb, " deviation /l:c/l:%s { deviate not-supported; }\n", drop)
			want = want[:0]
			for _, n := range names {
				if n != drop {
					want = append(want, n)
				}
			}
		}
		sb.WriteString("}")
		get = func(m *meta.Module) (got []string) {
			if cc := contC(m); cc != nil {
				for _, d := range cc.DataDefinitions() {
					got = append(got, d.Ident())
				}
			}
			return
		}
	case "revisions":
		sb.WriteString(lexHead)
		for i, n := range names {
			fmt.Fprintf(&sb, " revision %s { description \"r%d\"; }\n", n, i)
		}
		sb.WriteString(" container c { leaf x { type string; } }\n}")
		get = func(m *meta.Module) (got []string) {
			for _, r := range m.RevisionHistory() {
				got = append(got, r.Ident())
			}
			// the module's revision is the one written first
			if r := m.Revision(); r == nil || len(got) == 0 || r.Ident() != got[0] || r.Ident() != names[0] {
				got = append(got, "Revision()-is-not-the-first-statement")
			}
			return
		}
	case "musts", "iffeatures":
		sb.WriteString(lexHead + " revision 2024-01-01;\n")
		if what == "iffeatures" {
			for _, n := range names {
				fmt.Fprintf(&sb, " feature %s;\n", n)
			}
		}
		sb.WriteString(" container c { leaf y { type string; }\n  leaf x { type string;\n")
		for _, n := range names {
			if what == "musts" {
				fmt.Fprintf(&sb, "   must \"../y = '%s'\";\n", n)
			} else {
				fmt.Fprintf(&sb, "   if-feature %s;\n", n)
			}
		}
		sb.WriteString("  }\n }\n}")
		if what == "musts" {
			want = want[:0]
			for _, n := range names {
				want = append(want, "../y = '"+n+"'")
			}
		}
		get = func(m *meta.Module) (got []string) {
			if l := leafOf(m, "x"); l != nil {
				if what == "musts" {
					for _, x := range l.Musts() {
						got = append(got, x.Expression())
					}
				} else {
					for _, x := range l.IfFeatures() {
						got = append(got, x.Expression())
					}
				}
			}
			return
		}
	case "enums", "bits":
		sb.WriteString(lexHead + " revision 2024-01-01;\n container c { leaf x { type ")
		if what == "enums" {
			sb.WriteString("enumeration {")
			for _, n := range names {
				fmt.Fprintf(&sb, " enum %s;", n)
			}
		} else {
			sb.WriteString("bits {")
			for _, n := range names {
				fmt.Fprintf(&sb, " bit %s;", n)
			}
		}
		sb.WriteString(" } } }\n}")
		get = func(m *meta.Module) (got []string) {
			if l := leafOf(m, "x"); l != nil {
				if what == "enums" {
					for _, e := range l.Type().Enums() {
						got = append(got, e.Ident())
					}
				} else {
					for _, b := range l.Type().Bits() {
						got = append(got, b.Ident())
					}
				}
			}
			return
		}
	case "keys", "unique":
		sb.WriteString(lexHead + " revision 2024-01-01;\n container c { list x {\n")
		if what == "keys" {
			fmt.Fprintf(&sb, "  key \"%s\";\n", strings.Join(names, " "))
		} else {
			fmt.Fprintf(&sb, "  key \"id\"; leaf id { type string; }\n  unique \"%s\";\n", strings.Join(names, " "))
		}
		// the leaves themselves are written in another order than the key names them
		for i := len(names) - 1; i >= 0; i-- {
			fmt.Fprintf(&sb, "  leaf %s { type string; }\n", names[i])
		}
		sb.WriteString(" } }\n}")
		get = func(m *meta.Module) (got []string) {
			if cc := contC(m); cc != nil {
				if l, _ := cc.DataDefinition("x").(*meta.List); l != nil {
					if what == "keys" {
						for _, k := range l.KeyMeta() {
							got = append(got, k.Ident())
						}
					} else if u := l.Unique(); len(u) == 1 {
						got = append(got, u[0]...)
					}
				}
			}
			return
		}
	case "lldefaults":
		sb.WriteString(lexHead + " revision 2024-01-01;\n container c { leaf-list x { type string;\n")
		for _, n := range names {
			fmt.Fprintf(&sb, "  default \"%s\";\n", n)
		}
		sb.WriteString(" } }\n}")
		get = func(m *meta.Module) (got []string) {
			if cc := contC(m); cc != nil {
				if l, _ := cc.DataDefinition("x").(*meta.LeafList); l != nil {
					got = append(got, l.Default()...)
				}
			}
			return
		}
	}
	res := core.Rec{"panic": false, "err": false, "msg": ""}
	got := []string{}
	func() {
		defer func() {
			if r := recover(); r != nil {
				res["panic"] = true
				res["msg"] = fmt.Sprint(r)
			}
		}()
		m, err := parser.LoadModuleFromString(MemOpener(nil), sb.String())
		if err != nil {
			res["err"] = true
			res["msg"] = err.Error()
			return
		}
		if g := get(m); g != nil {
			got = g
		}
	}()
	return []core.Rec{{"chk": "order", "what": what, "want": want, "got": got, "res": res, "sig": core.Rec{"n": len(names), "what": what, "dropped": drop != ""}}}
}
