package dschema

import (
	"os"
	"testing"

	"github.com/freeconf/yang/parser"
	"github.com/freeconf/yang/source"
)

func TestZZ(t *testing.T) {
	b, _ := os.ReadFile(os.Getenv("ZZ"))
	m, err := parser.LoadModuleFromString(source.Dir("/repo/parser/testdata/grouping"), string(b))
	if err != nil {
		t.Fatal(err)
	}
	walkAll(m)
}
