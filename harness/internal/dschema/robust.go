package dschema

import (
	"errors"
	"fmt"
	"io"
	"runtime"
	"sort"
	"strings"

	"verif/internal/core"

	"github.com/freeconf/yang/meta"
	"github.com/freeconf/yang/parser"
	"github.com/freeconf/yang/source"
)

func init() {
	core.Executors["load"] = execLoad
	core.CrashRecHook["load"] = func(c core.Case, kind, frame string) core.Rec {
		shape, _ := c["shape"].(string)
		return core.Rec{"chk": "robust", "kind": "load", "shape": shape, "out": kind, "walk": "n/a", "frame": frame,
			"sig": core.Rec{"kind": "load", "shape": shape, "out": kind, "frame": frame, "name": c["name"]}}
	}
}

// Tokens splits YANG text into tokens (strings with their quotes, comments, braces,
// semicolons, words); white space is kept attached to the following token so that
// joining the tokens gives back the text.
func Tokens(text string) []string {
	var toks []string
	i := 0
	start := 0
	emit := func(end int) {
		if end > start {
			toks = append(toks, text[start:end])
		}
		start = end
	}
	for i < len(text) {
		c := text[i]
		switch {
		case c == ' ' || c == '\t' || c == '\n' || c == '\r':
			i++
		case c == '"' || c == '\'':
			j := i + 1
			for j < len(text) && text[j] != c {
				if text[j] == '\\' && c == '"' {
					j++
				}
				j++
			}
			if j < len(text) {
				j++
			}
			i = j
			emit(i)
		case strings.HasPrefix(text[i:], "//"):
			j := strings.IndexByte(text[i:], '\n')
			if j < 0 {
				i = len(text)
			} else {
				i += j + 1
			}
			emit(i)
		case strings.HasPrefix(text[i:], "/*"):
			j := strings.Index(text[i+2:], "*/")
			if j < 0 {
				i = len(text)
			} else {
				i += j + 4
			}
			emit(i)
		case c == '{' || c == '}' || c == ';':
			i++
			emit(i)
		default:
			j := i
			for j < len(text) && !strings.ContainsRune(" \t\r\n{};\"'", rune(text[j])) {
				j++
			}
			if j == i {
				j++
			}
			i = j
			emit(i)
		}
	}
	emit(len(text))
	return toks
}

// faultOpener: how the opener behaves for imports / includes.
func faultOpener(mods map[string]string, fault string) source.Opener {
	switch fault {
	case "nil-opener":
		return nil
	case "missing":
		return func(string, string) (io.Reader, error) { return nil, nil }
	case "error":
		return func(string, string) (io.Reader, error) { return nil, errors.New("injected read error") }
	case "self":
		// whatever is asked for, the opener hands out the first module it has: a module where
		// a submodule is expected, or the importing module itself
		return func(string, string) (io.Reader, error) {
			var names []string
			for n := range mods {
				names = append(names, n)
			}
			sort.Strings(names)
			if len(names) == 0 {
				return nil, nil
			}
			return strings.NewReader(mods[names[0]]), nil
		}
	case "empty":
		return func(string, string) (io.Reader, error) { return strings.NewReader(""), nil }
	case "read-error":
		return func(string, string) (io.Reader, error) { return failReader{}, nil }
	}
	return MemOpener(mods)
}

type failReader struct{}

func (failReader) Read([]byte) (int, error) { return 0, errors.New("injected stream error") }

// walkAll touches every public accessor of a compiled module.
func walkAll(m *meta.Module) {
	_ = Dump(m)
	seen := map[any]bool{}
	var walk func(h meta.HasDataDefinitions)
	walk = func(h meta.HasDataDefinitions) {
		if seen[h] {
			return
		}
		seen[h] = true
		for _, d := range h.DataDefinitions() {
			_ = meta.SchemaPath(d)
			if l, ok := d.(meta.Leafable); ok {
				t := l.Type()
				_ = t.Format()
				_ = t.UnionFormats()
			}
			if c, ok := d.(*meta.Choice); ok {
				for _, id := range c.CaseIdents() {
					walk(c.Cases()[id])
				}
			} else if hh, ok := d.(meta.HasDataDefinitions); ok {
				walk(hh)
			}
		}
	}
	walk(m)
}

// case {kind:"load", name, shape, text, mods: {name: text}, main (load by name through the opener), fault}
func execLoad(c core.Case) []core.Rec {
	shape, _ := c["shape"].(string)
	text, _ := c["text"].(string)
	fault, _ := c["fault"].(string)
	main, _ := c["main"].(string)
	mods := map[string]string{}
	if mm, ok := c["mods"].(map[string]any); ok {
		for k, v := range mm {
			mods[k] = fmt.Sprint(v)
		}
	}
	out, walk, frame, msg := "error", "n/a", "", ""
	func() {
		defer func() {
			if r := recover(); r != nil {
				out = "panic"
				msg = fmt.Sprint(r)
				frame = topFrame()
			}
		}()
		var m *meta.Module
		var err error
		if main != "" {
			m, err = parser.LoadModule(faultOpener(mods, fault), main)
		} else {
			m, err = parser.LoadModuleFromString(faultOpener(mods, fault), text)
		}
		if err != nil {
			msg = err.Error()
			return
		}
		if m == nil {
			out = "panic"
			msg = "nil module and nil error"
			return
		}
		out = "result"
		walk = "ok"
		func() {
			defer func() {
				if r := recover(); r != nil {
					walk = "panic"
					msg = fmt.Sprint(r)
					frame = topFrame()
				}
			}()
			walkAll(m)
		}()
	}()
	if len(msg) > 120 {
		msg = msg[:120]
	}
	return []core.Rec{{"chk": "robust", "kind": "load", "shape": shape, "out": out, "walk": walk, "frame": frame, "msg": msg,
		"sig": core.Rec{"kind": "load", "shape": shape, "out": out, "frame": frame, "name": c["name"]}}}
}

func topFrame() string {
	pc := make([]uintptr, 50)
	n := runtime.Callers(3, pc)
	frames := runtime.CallersFrames(pc[:n])
	for {
		fr, more := frames.Next()
		if strings.Contains(fr.Function, "github.com/freeconf/yang/") {
			return strings.TrimPrefix(fr.Function, "github.com/freeconf/yang/")
		}
		if !more {
			break
		}
	}
	return ""
}
