// Package dschema drives the schema layer: module texts are rendered by the harness,
// loaded with the real parser, and the compiled tree is observed through the public
// accessors (C01 C02 C06 C11 C14).
package dschema

import (
	"fmt"
	"io"
	"strings"

	"verif/internal/core"

	"github.com/freeconf/yang/meta"
	"github.com/freeconf/yang/parser"
	"github.com/freeconf/yang/source"
)

func init() {
	core.Executors["iff"] = execIff
}

// MemOpener serves module texts from memory.
func MemOpener(mods map[string]string) source.Opener {
	return func(name string, ext string) (io.Reader, error) {
		if y, ok := mods[name]; ok {
			return strings.NewReader(y), nil
		}
		return nil, nil
	}
}

// ExprText renders a token sequence as if-feature argument text.
func ExprText(toks []string) string {
	var sb strings.Builder
	for i, t := range toks {
		if i > 0 && t != ")" && toks[i-1] != "(" {
			sb.WriteByte(' ')
		}
		sb.WriteString(t)
	}
	return sb.String()
}

var iffImports = map[string]string{
	"FI": "module FI { namespace \"urn:fi\"; prefix fi; revision 2024-01-01; feature x; feature a; grouping gi { leaf gx { if-feature x; type string; } } }",
	"FJ": "module FJ { namespace \"urn:fj\"; prefix fj; revision 2024-01-01; feature y; leaf jy { if-feature y; type string; } }",
}

// iffModule places the expression on a statement of the given kind; the node `probe`
// is present in the compiled tree iff the guarded statement took effect.
func iffModule(kind, expr string) string {
	g := fmt.Sprintf("if-feature \"%s\";", expr)
	head := "module F {\n namespace \"urn:f\";\n prefix \"f\";\n revision 2024-01-01;\n feature a; feature b; feature c;\n leaf always { type string; }\n"
	switch kind {
	case "leaf":
		return head + " leaf probe { " + g + " type string; }\n}"
	case "container":
		return head + " container probe { " + g + " leaf x { type string; } }\n}"
	case "list":
		return head + " list probe { " + g + " key \"k\"; leaf k { type string; } }\n}"
	case "leaf-list":
		return head + " leaf-list probe { " + g + " type string; }\n}"
	case "case":
		return head + " choice ch { case k { " + g + " leaf probe { type string; } } case other { leaf o { type string; } } }\n}"
	case "uses":
		return head + " grouping g { leaf probe { type string; } }\n uses g { " + g + " }\n}"
	case "augment":
		return head + " container base { leaf bl { type string; } }\n augment \"/base\" { " + g + " leaf probe { type string; } }\n}"
	case "choice":
		return head + " choice probe { " + g + " leaf pl { type string; } }\n}"
	case "refine":
		return head + " grouping g { leaf probe { type string; } leaf stays { type string; } }\n uses g { refine probe { " + g + " } }\n}"
	case "rpc":
		return head + " rpc probe { " + g + " }\n}"
	case "notification":
		return head + " notification probe { " + g + " leaf nl { type string; } }\n}"
	case "anydata":
		return head + " anydata probe { " + g + " }\n}"
	case "leaf-importing":
		// the module imports modules that declare features of their own
		return strings.Replace(head, "revision 2024-01-01;", "import FI { prefix fi; } import FJ { prefix fj; } revision 2024-01-01;", 1) +
			" leaf probe { " + g + " type string; }\n uses fi:gi;\n}"
	}
	return head + "}"
}

func findProbe(m *meta.Module, kind string) bool {
	switch kind {
	case "rpc":
		_, found := m.Actions()["probe"]
		return found
	case "notification":
		_, found := m.Notifications()["probe"]
		return found
	}
	var look func(h meta.HasDataDefinitions) bool
	look = func(h meta.HasDataDefinitions) bool {
		for _, d := range h.DataDefinitions() {
			if d.Ident() == "probe" {
				return true
			}
			if c, ok := d.(*meta.Choice); ok {
				for _, id := range c.CaseIdents() {
					if look(c.Cases()[id]) {
						return true
					}
				}
			} else if hh, ok := d.(meta.HasDataDefinitions); ok {
				if look(hh) {
					return true
				}
			}
		}
		return false
	}
	return look(m)
}

// case {kind:"iff", toks, on, stmt, cfg: "allow" | "deny" | "all"}
func execIff(c core.Case) []core.Rec {
	var toks, on []string
	core.Recode(c["toks"], &toks)
	core.Recode(c["on"], &on)
	if on == nil {
		on = []string{}
	}
	stmt, _ := c["stmt"].(string)
	cfg, _ := c["cfg"].(string)
	var fs meta.FeatureSet
	switch cfg {
	case "allow":
		fs = meta.FeaturesOn(on)
	case "deny":
		var off []string
		for _, f := range []string{"a", "b", "c"} {
			isOn := false
			for _, o := range on {
				if o == f {
					isOn = true
				}
			}
			if !isOn {
				off = append(off, f)
			}
		}
		fs = meta.FeaturesOff(off)
	default:
		fs = meta.AllFeaturesOn()
	}
	// written with the module's own prefix the names mean the same features (RFC 7950 7.20.2:
	// a feature name may carry a prefix)
	written := toks
	if own, _ := c["ownprefix"].(bool); own {
		written = nil
		for _, t := range toks {
			if t == "a" || t == "b" || t == "c" {
				t = "f:" + t
			}
			written = append(written, t)
		}
	}
	text := iffModule(stmt, ExprText(written))
	res := core.Rec{"panic": false, "err": false, "present": false, "msg": ""}
	func() {
		defer func() {
			if r := recover(); r != nil {
				res["panic"] = true
				res["msg"] = fmt.Sprint(r)
			}
		}()
		m, err := parser.LoadModuleFromStringWithOptions(MemOpener(iffImports), text, parser.Options{Features: fs})
		if err != nil {
			res["err"] = true
			res["msg"] = err.Error()
			return
		}
		res["present"] = findProbe(m, stmt)
	}()
	if m := fmt.Sprint(res["msg"]); len(m) > 120 {
		res["msg"] = m[:120]
	}
	return []core.Rec{{"chk": "iff", "toks": toks, "on": on, "stmt": stmt, "cfg": cfg, "text": ExprText(toks), "res": res,
		"sig": core.Rec{"stmt": stmt, "cfg": cfg, "shape": Shape(toks)}}}
}

// Shape abstracts a token sequence for finding signatures: feature names become "f".
func Shape(toks []string) string {
	var out []string
	for _, t := range toks {
		switch t {
		case "and", "or", "not", "(", ")":
			out = append(out, t)
		default:
			out = append(out, "f")
		}
	}
	return strings.Join(out, " ")
}
