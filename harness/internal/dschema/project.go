package dschema

import (
	"encoding/json"
	"fmt"
	"os"
	"path/filepath"
	"sort"
	"strings"

	"verif/internal/core"

	"github.com/freeconf/yang/meta"
	"github.com/freeconf/yang/parser"
	"github.com/freeconf/yang/source"
)

// PType is the observed effective type of a leaf.
type PType struct {
	Name    string   `json:"name"`
	Format  string   `json:"format"`
	Ranges  []string `json:"ranges"`
	Lengths []string `json:"lengths"`
	Pats    []string `json:"pats"`
	Enums   []string `json:"enums"` // label=value
	Bits    []string `json:"bits"`  // label=position
	Bases   []string `json:"bases"`
	Path    string   `json:"path"`
	FD      int      `json:"fd"`
	Union   []PType  `json:"union"`
	LeafRef string   `json:"leafref"` // format of the leafref target
	Target  string   `json:"target"`  // leafref: the type of the leaf pointed at (through further leafrefs), as typeSig
}

// PNode is one node of the compiled schema as seen through the public accessors.
type PNode struct {
	K      string   `json:"k"` // container list leaf leaf-list choice case anydata rpc input output notification
	N      string   `json:"n"`
	Config string   `json:"config"`
	Mand   string   `json:"mand"`
	Dflt   []string `json:"dflt"`
	HasD   bool     `json:"hasd"`
	Units  string   `json:"units"`
	Desc   string   `json:"desc"`
	When   string   `json:"when"`
	Musts  []string `json:"musts"`
	Min    string   `json:"min"`
	Max    string   `json:"max"`
	Keys   []string `json:"keys"`
	Pres   string   `json:"pres"`
	Type   *PType   `json:"type"`
	Kids   []PNode  `json:"kids"`
	Parent string   `json:"parent"` // ident of Parent() (integrity of the tree)
	Index  bool     `json:"index"`  // parent.Definition(name) finds this node
	PtrDup bool     `json:"ptrdup"` // the same Go object appears elsewhere in the tree
}

type projector struct {
	seen map[any]bool
}

func pType(t *meta.Type) *PType {
	if t == nil {
		return nil
	}
	p := &PType{Name: t.Ident(), Format: t.Format().String(), Ranges: []string{}, Lengths: []string{}, Pats: []string{}, Enums: []string{}, Bits: []string{}, Bases: []string{}, Union: []PType{}, Path: t.Path(), FD: t.FractionDigits()}
	for _, r := range t.Range() {
		p.Ranges = append(p.Ranges, r.String())
	}
	for _, r := range t.Length() {
		p.Lengths = append(p.Lengths, r.String())
	}
	for _, x := range t.Patterns() {
		s := x.Pattern
		if x.Inverted() {
			s = "!" + s
		}
		p.Pats = append(p.Pats, s)
	}
	for _, e := range t.Enums() {
		p.Enums = append(p.Enums, fmt.Sprintf("%s=%d", e.Ident(), e.Value()))
	}
	for _, b := range t.Bits() {
		p.Bits = append(p.Bits, fmt.Sprintf("%s=%d", b.Ident(), b.Position))
	}
	seen := map[string]bool{}
	var walk func(ids []*meta.Identity)
	walk = func(ids []*meta.Identity) {
		for _, id := range ids {
			if !seen[id.Ident()] {
				seen[id.Ident()] = true
				p.Bases = append(p.Bases, id.Ident())
				walk(id.DerivedDirect())
			}
		}
	}
	walk(t.Base())
	sort.Strings(p.Bases)
	for _, u := range t.Union() {
		p.Union = append(p.Union, *pType(u))
	}
	func() {
		defer func() { recover() }()
		if strings.HasPrefix(p.Format, "leafref") {
			p.LeafRef = t.Resolve().Format().String()
			p.Target = "?"
			r := t.Resolve()
			for fuel := 0; fuel < 5 && r != nil; fuel++ {
				if !strings.HasPrefix(r.Format().String(), "leafref") {
					p.Target = typeSig(pTypeNoRef(r))
					break
				}
				r = r.Resolve()
			}
		}
	}()
	return p
}

// pTypeNoRef: pType of a type that is not a leafref (no target to follow)
func pTypeNoRef(t *meta.Type) *PType { return pType(t) }

func (pj *projector) node(d meta.Definition, parent meta.Meta) PNode {
	n := PNode{N: d.Ident(), Dflt: []string{}, Musts: []string{}, Keys: []string{}, Kids: []PNode{}}
	if pj.seen[d] {
		// a recursive definition (a grouping that uses itself) comes back as the same Go
		// object: named, not expanded again
		n.PtrDup = true
		n.K = "again"
		return n
	}
	pj.seen[d] = true
	if p := d.Parent(); p != nil {
		if id, ok := p.(meta.Identifiable); ok {
			n.Parent = id.Ident()
		}
	}
	if hd, ok := parent.(interface{ Definition(string) meta.Definition }); ok {
		n.Index = hd.Definition(d.Ident()) == d
	}
	if hd, ok := d.(meta.HasDetails); ok {
		n.Config = fmt.Sprint(hd.Config())
		n.Mand = fmt.Sprint(hd.Mandatory())
	}
	if x, ok := d.(meta.Describable); ok {
		n.Desc = x.Description()
	}
	if hw, ok := d.(meta.HasWhen); ok && hw.When() != nil {
		n.When = hw.When().Expression()
	}
	if hm, ok := d.(meta.HasMusts); ok {
		for _, m := range hm.Musts() {
			n.Musts = append(n.Musts, m.Expression())
		}
	}
	if hl, ok := d.(meta.HasListDetails); ok {
		if hl.IsMinElementsSet() {
			n.Min = fmt.Sprint(hl.MinElements())
		}
		if hl.IsMaxElementsSet() {
			n.Max = fmt.Sprint(hl.MaxElements())
		}
	}
	switch x := d.(type) {
	case *meta.Container:
		n.K = "container"
		n.Pres = x.Presence()
		n.Kids = pj.kids(x)
	case *meta.List:
		n.K = "list"
		for _, k := range x.KeyMeta() {
			n.Keys = append(n.Keys, k.Ident())
		}
		n.Kids = pj.kids(x)
	case *meta.Leaf:
		n.K = "leaf"
		n.Type = pType(x.Type())
		n.Units = x.Units()
		n.HasD = x.HasDefault()
		if x.HasDefault() {
			n.Dflt = []string{fmt.Sprint(x.DefaultValue())}
		}
	case *meta.LeafList:
		n.K = "leaf-list"
		n.Type = pType(x.Type())
		n.Units = x.Units()
		n.HasD = x.HasDefault()
		if x.HasDefault() {
			n.Dflt = append(n.Dflt, x.Default()...)
		}
	case *meta.Choice:
		n.K = "choice"
		for _, id := range x.CaseIdents() {
			cs := x.Cases()[id]
			c := PNode{K: "case", N: cs.Ident(), Dflt: []string{}, Musts: []string{}, Keys: []string{}, Kids: pj.kids(cs)}
			if cs.When() != nil {
				c.When = cs.When().Expression()
			}
			if id2, ok := cs.Parent().(meta.Identifiable); ok {
				c.Parent = id2.Ident()
			}
			n.Kids = append(n.Kids, c)
		}
	case *meta.Any:
		n.K = "anydata"
	default:
		n.K = fmt.Sprintf("%T", d)
	}
	if ha, ok := d.(meta.HasActions); ok {
		n.Kids = append(n.Kids, pj.actions(ha)...)
	}
	if hn, ok := d.(meta.HasNotifications); ok {
		n.Kids = append(n.Kids, pj.notifs(hn)...)
	}
	return n
}

func (pj *projector) kids(h meta.HasDataDefinitions) []PNode {
	out := []PNode{}
	for _, d := range h.DataDefinitions() {
		out = append(out, pj.node(d, h))
	}
	return out
}

func (pj *projector) actions(h meta.HasActions) []PNode {
	var names []string
	for n := range h.Actions() {
		names = append(names, n)
	}
	sort.Strings(names)
	out := []PNode{}
	for _, name := range names {
		a := h.Actions()[name]
		n := PNode{K: "rpc", N: name, Desc: a.Description(), Dflt: []string{}, Musts: []string{}, Keys: []string{}, Kids: []PNode{}}
		if a.Input() != nil {
			n.Kids = append(n.Kids, PNode{K: "input", N: "input", Dflt: []string{}, Musts: []string{}, Keys: []string{}, Kids: pj.kids(a.Input())})
		}
		if a.Output() != nil {
			n.Kids = append(n.Kids, PNode{K: "output", N: "output", Dflt: []string{}, Musts: []string{}, Keys: []string{}, Kids: pj.kids(a.Output())})
		}
		out = append(out, n)
	}
	return out
}

func (pj *projector) notifs(h meta.HasNotifications) []PNode {
	var names []string
	for n := range h.Notifications() {
		names = append(names, n)
	}
	sort.Strings(names)
	out := []PNode{}
	for _, name := range names {
		a := h.Notifications()[name]
		out = append(out, PNode{K: "notification", N: name, Desc: a.Description(), Dflt: []string{}, Musts: []string{}, Keys: []string{}, Kids: pj.kids(a)})
	}
	return out
}

// ProjectModule walks the compiled module through the public accessors.
func ProjectModule(m *meta.Module) PNode {
	pj := &projector{seen: map[any]bool{}}
	root := PNode{K: "module", N: m.Ident(), Desc: m.Description(), Dflt: []string{}, Musts: []string{}, Keys: []string{}, Kids: pj.kids(m)}
	root.Kids = append(root.Kids, pj.actions(m)...)
	root.Kids = append(root.Kids, pj.notifs(m)...)
	return root
}

// Dump is a canonical text of everything observable: the projected tree plus the
// module level tables (ordered where the API returns slices, sorted where it returns maps).
func Dump(m *meta.Module) string {
	var sb strings.Builder
	b, _ := json.Marshal(ProjectModule(m))
	sb.Write(b)
	fmt.Fprintf(&sb, "\nns=%s prefix=%s org=%q contact=%q ver=%s", m.Namespace(), m.Prefix(), m.Organization(), m.Contact(), m.Version())
	for _, r := range m.RevisionHistory() {
		fmt.Fprintf(&sb, "\nrev %s %q", r.Ident(), r.Description())
	}
	var names []string
	for n := range m.Typedefs() {
		names = append(names, n)
	}
	sort.Strings(names)
	for _, n := range names {
		t := m.Typedefs()[n]
		tb, _ := json.Marshal(pType(t.Type()))
		fmt.Fprintf(&sb, "\ntypedef %s %s units=%q dflt=%v", n, tb, t.Units(), t.DefaultValue())
	}
	names = nil
	for n := range m.Identities() {
		names = append(names, n)
	}
	sort.Strings(names)
	for _, n := range names {
		id := m.Identities()[n]
		// DerivedDirect is a slice: its order is observable
		fmt.Fprintf(&sb, "\nidentity %s base=%v derived=%v", n, id.BaseIds(), id.DerivedDirectIds())
	}
	names = nil
	for n := range m.Features() {
		names = append(names, n)
	}
	sort.Strings(names)
	fmt.Fprintf(&sb, "\nfeatures %v", names)
	names = nil
	for n := range m.Groupings() {
		names = append(names, n)
	}
	sort.Strings(names)
	fmt.Fprintf(&sb, "\ngroupings %v", names)
	names = nil
	for n := range m.ExtensionDefs() {
		names = append(names, n)
	}
	sort.Strings(names)
	fmt.Fprintf(&sb, "\nextensions %v", names)
	for _, e := range m.Extensions() {
		fmt.Fprintf(&sb, "\next %s:%s %q", e.Prefix(), e.Ident(), e.Argument())
	}
	return sb.String()
}

// case {kind:"determinism", file (path below /repo/parser/testdata, without .yang) | fixture text}
func execDeterminism(c core.Case) []core.Rec {
	file, _ := c["file"].(string)
	dir, _ := c["dir"].(string)
	dumps := []string{}
	res := core.Rec{"panic": false, "err": false, "msg": ""}
	for i := 0; i < 3; i++ {
		func() {
			defer func() {
				if r := recover(); r != nil {
					res["panic"] = true
					res["msg"] = fmt.Sprint(r)
				}
			}()
			m, err := parser.LoadModule(source.Dir(dir), file)
			if err != nil {
				res["err"] = true
				res["msg"] = err.Error()
				return
			}
			dumps = append(dumps, Dump(m))
		}()
	}
	if len(dumps) == 0 {
		return []core.Rec{{"chk": "skip", "why": fmt.Sprint(res["msg"]), "sig": core.Rec{"file": file}}}
	}
	// hash only: the dumps are large
	hs := []string{}
	for _, d := range dumps {
		hs = append(hs, fmt.Sprintf("%d:%x", len(d), fnv(d)))
	}
	if w, _ := c["worker"].(bool); !w {
		// one more load in another process (Go randomises map iteration per process)
		if other, err := core.RunIsolated([]core.Case{{"kind": "determinism", "file": file, "dir": dir, "worker": true}}, 0); err == nil && len(other) == 1 {
			if ds, ok := other[0]["dumps"].([]any); ok {
				for _, d := range ds {
					hs = append(hs, fmt.Sprint(d))
				}
			}
		}
	}
	return []core.Rec{{"chk": "determinism", "file": file, "dumps": hs, "sig": core.Rec{"file": filepath.Base(file)}}}
}

func fnv(s string) uint64 {
	h := uint64(14695981039346656037)
	for i := 0; i < len(s); i++ {
		h ^= uint64(s[i])
		h *= 1099511628211
	}
	return h
}

var _ = os.Getenv
