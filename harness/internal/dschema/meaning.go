package dschema

import (
	"encoding/json"
	"fmt"
	"sort"
	"strings"

	"verif/internal/core"

	"github.com/freeconf/yang/meta"
	"github.com/freeconf/yang/parser"
)

func init() {
	core.Executors["meaning"] = execMeaning
}

// AST mirrors of the records of spec/YangMeaning.tla

type Ref struct {
	P string `json:"p"`
	G string `json:"g"`
}

type Refine struct {
	Path []string `json:"path"`
	Attr string   `json:"attr"`
	Val  string   `json:"val"`
}

type Augment struct {
	Path []string `json:"path"`
	C    []Stmt   `json:"c"`
	Mod  string   `json:"mod"`
}

type Grouping struct {
	N   string     `json:"n"`
	C   []Stmt     `json:"c"`
	Gs  []Grouping `json:"gs"`
	Tds []Typedef  `json:"tds"`
}

type EnumV struct {
	L string `json:"l"`
	V int    `json:"v"`
}

type IdRef struct {
	P string `json:"p"`
	N string `json:"n"`
}

type Identity struct {
	N     string  `json:"n"`
	Bases []IdRef `json:"bases"`
}

type TypeStmt struct {
	P    string  `json:"p"`
	N    string  `json:"n"`
	Rng  string  `json:"rng"`
	Len  string  `json:"len"`
	En   []EnumV `json:"en"`
	Base IdRef   `json:"base"`
	// Mem: the member types of a union; Path: the steps of a leafref path ("..", names, or "/" first)
	Mem  []TypeStmt `json:"mem"`
	Path []string   `json:"path"`
}

type Typedef struct {
	N     string   `json:"n"`
	Ty    TypeStmt `json:"ty"`
	Dflt  string   `json:"dflt"`
	Units string   `json:"units"`
}

// EffType: base built-in type, ranges stated along the chain (nearest first), enum values
type EffType struct {
	Base string   `json:"base"`
	Rngs []string `json:"rngs"`
	Lens []string `json:"lens"`
	En   []EnumV  `json:"en"`
	Ids  []string `json:"ids"`
	Mems []string `json:"mems"`
	Tgt  string   `json:"tgt"`
}

type Stmt struct {
	K     string     `json:"k"`
	N     string     `json:"n"`
	Ref0  Ref        `json:"ref0"`
	Cfg   string     `json:"cfg"`
	Mand  string     `json:"mand"`
	Dflt  string     `json:"dflt"`
	Desc  string     `json:"desc"`
	Iff   string     `json:"iff"`
	Keys  []string   `json:"keys"`
	C     []Stmt     `json:"c"`
	Gs    []Grouping `json:"gs"`
	Ref   []Refine   `json:"ref"`
	Aug   []Augment  `json:"aug"`
	Ty    TypeStmt   `json:"ty"`
	Units string     `json:"units"`
	Tds   []Typedef  `json:"tds"`
}

type Import struct {
	M string `json:"m"`
	P string `json:"p"`
}

type Module struct {
	Name     string     `json:"name"`
	Prefix   string     `json:"prefix"`
	Sub      bool       `json:"sub"`
	Belongs  string     `json:"belongs"`
	Gs       []Grouping `json:"gs"`
	Tds      []Typedef  `json:"tds"`
	Ids      []Identity `json:"ids"`
	Body     []Stmt     `json:"body"`
	Augs     []Augment  `json:"augs"`
	Includes []string   `json:"includes"`
	Imports  []Import   `json:"imports"`
}

type ModuleSet map[string]Module

// Node: a node of the compiled tree in the shape of Meaning's result, plus what the
// public accessors say about the integrity of the copy.
type Node struct {
	K     string   `json:"k"`
	N     string   `json:"n"`
	Cfg   bool     `json:"cfg"`
	Mand  bool     `json:"mand"`
	Dflt  string   `json:"dflt"`
	Desc  string   `json:"desc"`
	Keys  []string `json:"keys"`
	Units string   `json:"units"`
	Et    EffType  `json:"et"`
	C     []Node   `json:"c"`
}

func ind(n int) string { return strings.Repeat("  ", n) }

func renderType(sb *strings.Builder, t TypeStmt, d int) {
	name := t.N
	if t.P != "" {
		name = t.P + ":" + name
	}
	if name == "" {
		name = "string"
	}
	if t.Rng == "" && t.Len == "" && len(t.En) == 0 && t.Base.N == "" && len(t.Mem) == 0 && len(t.Path) == 0 {
		fmt.Fprintf(sb, "%stype %s;\n", ind(d), name)
		return
	}
	fmt.Fprintf(sb, "%stype %s {\n", ind(d), name)
	if t.Rng != "" {
		fmt.Fprintf(sb, "%srange %q;\n", ind(d+1), t.Rng)
	}
	if t.Len != "" {
		fmt.Fprintf(sb, "%slength %q;\n", ind(d+1), t.Len)
	}
	if t.Base.N != "" {
		b := t.Base.N
		if t.Base.P != "" {
			b = t.Base.P + ":" + b
		}
		fmt.Fprintf(sb, "%sbase %s;\n", ind(d+1), b)
	}
	for _, e := range t.En {
		kw, vkw := "enum", "value"
		if t.N == "bits" {
			kw, vkw = "bit", "position"
		}
		if e.V >= 0 {
			fmt.Fprintf(sb, "%s%s %s {\n%s%s %d;\n%s}\n", ind(d+1), kw, e.L, ind(d+2), vkw, e.V, ind(d+1))
		} else {
			fmt.Fprintf(sb, "%s%s %s;\n", ind(d+1), kw, e.L)
		}
	}
	for _, m := range t.Mem {
		renderType(sb, m, d+1)
	}
	if len(t.Path) > 0 {
		fmt.Fprintf(sb, "%spath %q;\n", ind(d+1), PathText(t.Path))
	}
	fmt.Fprintf(sb, "%s}\n", ind(d))
}

// PathText writes the steps of a leafref path ("/" first: absolute).
func PathText(steps []string) string {
	if len(steps) > 0 && steps[0] == "/" {
		return "/" + strings.Join(steps[1:], "/")
	}
	return strings.Join(steps, "/")
}

// typeSig mirrors TypeSig of YangMeaning.tla: a compiled type as one string.
func typeSig(t *PType) string {
	base := strings.TrimSuffix(t.Format, "-list")
	if base == "union" {
		var ms []string
		for i := range t.Union {
			ms = append(ms, typeSig(&t.Union[i]))
		}
		return "union[" + strings.Join(ms, "|") + "]"
	}
	en := t.Enums
	if base == "bits" {
		en = t.Bits
	}
	return base + "(" + strings.Join(t.Ranges, ",") + ";" + strings.Join(t.Lengths, ",") + ";" + strings.Join(en, ",") + ")"
}

func renderTypedefs(sb *strings.Builder, tds []Typedef, d int) {
	for _, t := range tds {
		fmt.Fprintf(sb, "%stypedef %s {\n", ind(d), t.N)
		renderType(sb, t.Ty, d+1)
		if t.Dflt != "" {
			fmt.Fprintf(sb, "%sdefault %q;\n", ind(d+1), t.Dflt)
		}
		if t.Units != "" {
			fmt.Fprintf(sb, "%sunits %q;\n", ind(d+1), t.Units)
		}
		fmt.Fprintf(sb, "%s}\n", ind(d))
	}
}

func renderGroupings(sb *strings.Builder, gs []Grouping, d int) {
	for _, g := range gs {
		fmt.Fprintf(sb, "%sgrouping %s {\n", ind(d), g.N)
		renderTypedefs(sb, g.Tds, d+1)
		renderGroupings(sb, g.Gs, d+1)
		renderStmts(sb, g.C, d+1)
		fmt.Fprintf(sb, "%s}\n", ind(d))
	}
}

func renderProps(sb *strings.Builder, s Stmt, d int) {
	if s.Iff != "" {
		fmt.Fprintf(sb, "%sif-feature %s;\n", ind(d), s.Iff)
	}
	if s.Cfg != "" {
		fmt.Fprintf(sb, "%sconfig %s;\n", ind(d), s.Cfg)
	}
	if s.Mand != "" {
		fmt.Fprintf(sb, "%smandatory %s;\n", ind(d), s.Mand)
	}
	if s.Dflt != "" {
		fmt.Fprintf(sb, "%sdefault %q;\n", ind(d), s.Dflt)
	}
	if s.Desc != "" {
		fmt.Fprintf(sb, "%sdescription %q;\n", ind(d), s.Desc)
	}
}

func renderStmts(sb *strings.Builder, ss []Stmt, d int) {
	for _, s := range ss {
		switch s.K {
		case "leaf", "leaflist":
			kw := "leaf"
			if s.K == "leaflist" {
				kw = "leaf-list"
			}
			fmt.Fprintf(sb, "%s%s %s {\n", ind(d), kw, s.N)
			renderType(sb, s.Ty, d+1)
			if s.Units != "" {
				fmt.Fprintf(sb, "%sunits %q;\n", ind(d+1), s.Units)
			}
			renderProps(sb, s, d+1)
			fmt.Fprintf(sb, "%s}\n", ind(d))
		case "uses":
			name := s.Ref0.G
			if s.Ref0.P != "" {
				name = s.Ref0.P + ":" + name
			}
			fmt.Fprintf(sb, "%suses %s {\n", ind(d), name)
			renderProps(sb, s, d+1)
			for _, r := range s.Ref {
				kw := map[string]string{"cfg": "config", "mand": "mandatory", "dflt": "default", "desc": "description"}[r.Attr]
				val := r.Val
				if r.Attr == "dflt" || r.Attr == "desc" {
					val = fmt.Sprintf("%q", val)
				}
				fmt.Fprintf(sb, "%srefine %s {\n%s%s %s;\n%s}\n", ind(d+1), strings.Join(r.Path, "/"), ind(d+2), kw, val, ind(d+1))
			}
			for _, a := range s.Aug {
				fmt.Fprintf(sb, "%saugment %q {\n", ind(d+1), strings.Join(a.Path, "/"))
				renderStmts(sb, a.C, d+2)
				fmt.Fprintf(sb, "%s}\n", ind(d+1))
			}
			fmt.Fprintf(sb, "%s}\n", ind(d))
		case "action":
			// c: the leaves of the output; desc "with-input": an input as well
			fmt.Fprintf(sb, "%saction %s {\n", ind(d), s.N)
			if s.Desc == "with-input" {
				fmt.Fprintf(sb, "%sinput {\n%sleaf arg {\n%stype string;\n%s}\n%s}\n", ind(d+1), ind(d+2), ind(d+3), ind(d+2), ind(d+1))
			}
			fmt.Fprintf(sb, "%soutput {\n", ind(d+1))
			renderStmts(sb, s.C, d+2)
			fmt.Fprintf(sb, "%s}\n%s}\n", ind(d+1), ind(d))
		default:
			fmt.Fprintf(sb, "%s%s %s {\n", ind(d), s.K, s.N)
			if s.K == "list" && len(s.Keys) > 0 {
				fmt.Fprintf(sb, "%skey %q;\n", ind(d+1), strings.Join(s.Keys, " "))
			}
			renderProps(sb, s, d+1)
			renderTypedefs(sb, s.Tds, d+1)
			renderGroupings(sb, s.Gs, d+1)
			renderStmts(sb, s.C, d+1)
			fmt.Fprintf(sb, "%s}\n", ind(d))
		}
	}
}

// RenderModule writes a module of the abstract syntax as YANG text.
func RenderModule(m Module, features []string) string {
	var sb strings.Builder
	if m.Sub {
		fmt.Fprintf(&sb, "submodule %s {\n  belongs-to %s {\n    prefix %s;\n  }\n", m.Name, m.Belongs, m.Prefix)
	} else {
		fmt.Fprintf(&sb, "module %s {\n  namespace \"urn:%s\";\n  prefix %s;\n", m.Name, m.Name, m.Prefix)
	}
	for _, i := range m.Imports {
		fmt.Fprintf(&sb, "  import %s {\n    prefix %s;\n  }\n", i.M, i.P)
	}
	for _, i := range m.Includes {
		fmt.Fprintf(&sb, "  include %s;\n", i)
	}
	sb.WriteString("  revision 2024-01-01;\n")
	if !m.Sub {
		for _, f := range features {
			fmt.Fprintf(&sb, "  feature %s;\n", f)
		}
	}
	for _, id := range m.Ids {
		fmt.Fprintf(&sb, "  identity %s {\n", id.N)
		for _, b := range id.Bases {
			n := b.N
			if b.P != "" {
				n = b.P + ":" + n
			}
			fmt.Fprintf(&sb, "    base %s;\n", n)
		}
		sb.WriteString("  }\n")
	}
	renderTypedefs(&sb, m.Tds, 1)
	renderGroupings(&sb, m.Gs, 1)
	renderStmts(&sb, m.Body, 1)
	for _, a := range m.Augs {
		fmt.Fprintf(&sb, "  augment \"/%s\" {\n", strings.Join(a.Path, "/"))
		renderStmts(&sb, a.C, 2)
		sb.WriteString("  }\n")
	}
	sb.WriteString("}\n")
	return sb.String()
}

type integrity struct {
	shared, parent, index []string
}

func toNodes(kids []PNode, parentCfg bool, parentName string, path string, in *integrity) []Node {
	out := []Node{}
	for _, k := range kids {
		switch k.K {
		case "rpc", "notification":
			// not part of the compared tree; the integrity of the copy still is
			walkIntegrity(k, path+"/"+k.N, in)
			continue
		case "again":
			continue
		}
		n := Node{K: k.K, N: k.N, Mand: k.Mand == "true", Desc: k.Desc, Keys: k.Keys, C: []Node{}, Units: k.Units, Et: EffType{Rngs: []string{}, Lens: []string{}, En: []EnumV{}, Ids: []string{}, Mems: []string{}}}
		if k.Type != nil {
			// list-ness: the format of a leaf-list's type is the list form, a leaf's is not
			n.Et.Base = k.Type.Format
			if k.K == "leaf-list" {
				if strings.HasSuffix(k.Type.Format, "-list") {
					n.Et.Base = strings.TrimSuffix(k.Type.Format, "-list")
				} else {
					n.Et.Base = k.Type.Format + " (not the list form)"
				}
			}
			n.Et.Rngs = append(n.Et.Rngs, k.Type.Ranges...)
			n.Et.Ids = append(n.Et.Ids, k.Type.Bases...)
			n.Et.Lens = append(n.Et.Lens, k.Type.Lengths...)
			for i := range k.Type.Union {
				n.Et.Mems = append(n.Et.Mems, typeSig(&k.Type.Union[i]))
			}
			n.Et.Tgt = k.Type.Target
			if n.Et.Base == "bits" {
				k.Type.Enums = k.Type.Bits
			}
			for _, e := range k.Type.Enums {
				if i := strings.LastIndexByte(e, '='); i > 0 {
					v := 0
					fmt.Sscan(e[i+1:], &v)
					n.Et.En = append(n.Et.En, EnumV{L: e[:i], V: v})
				}
			}
		}
		if n.K == "leaf-list" {
			n.K = "leaflist"
		}
		if n.Keys == nil {
			n.Keys = []string{}
		}
		switch k.Config {
		case "true":
			n.Cfg = true
		case "false":
			n.Cfg = false
		default:
			n.Cfg = parentCfg // not observable (a case): not compared
		}
		if len(k.Dflt) > 0 {
			n.Dflt = k.Dflt[0]
		}
		p := path + "/" + k.N
		if k.PtrDup {
			in.shared = append(in.shared, p)
		}
		if k.Parent != parentName {
			in.parent = append(in.parent, p+" (Parent()="+k.Parent+")")
		}
		if k.K != "case" && !k.Index {
			in.index = append(in.index, p)
		}
		n.C = toNodes(k.Kids, n.Cfg, k.N, p, in)
		out = append(out, n)
	}
	return out
}

func walkIntegrity(k PNode, path string, in *integrity) {
	for _, c := range k.Kids {
		p := path + "/" + c.N
		if c.PtrDup {
			in.shared = append(in.shared, p)
		}
		if c.K != "input" && c.K != "output" && c.Parent != k.N && k.K != "rpc" {
			in.parent = append(in.parent, p+" (Parent()="+c.Parent+")")
		}
		walkIntegrity(c, p, in)
	}
}

// case {kind:"meaning", ms, on: [features], features: [all declared]}
func execMeaning(c core.Case) []core.Rec {
	b, _ := json.Marshal(c["ms"])
	var ms ModuleSet
	if err := json.Unmarshal(b, &ms); err != nil {
		return []core.Rec{{"chk": "harness", "sig": core.Rec{"err": err.Error()}}}
	}
	var on, feats []string
	jb, _ := json.Marshal(c["on"])
	json.Unmarshal(jb, &on)
	jb, _ = json.Marshal(c["features"])
	json.Unmarshal(jb, &feats)
	if on == nil {
		on = []string{}
	}
	texts := map[string]string{}
	for name, m := range ms {
		texts[name] = RenderModule(m, feats)
	}
	names := []string{}
	for n := range ms {
		names = append(names, n)
	}
	sort.Strings(names)
	shape := strings.Join(names, "+")
	rec := core.Rec{"chk": "meaning", "ms": c["ms"], "on": on, "err": "", "got": []Node{}, "shared": []string{}, "parentlink": []string{}, "noindex": []string{},
		"sig": core.Rec{"modules": shape}}
	var m *meta.Module
	var err error
	func() {
		defer func() {
			if r := recover(); r != nil {
				err = fmt.Errorf("panic: %v", r)
			}
		}()
		m, err = parser.LoadModuleWithOptions(MemOpener(texts), "m", parser.Options{Features: meta.FeaturesOn(on)})
	}()
	if err != nil {
		msg := err.Error()
		if len(msg) > 200 {
			msg = msg[:200]
		}
		rec["err"] = msg
		rec["text"] = texts["m"]
		return []core.Rec{rec}
	}
	in := &integrity{}
	p := ProjectModule(m)
	rec["got"] = toNodes(p.Kids, true, "m", "", in)
	if in.shared != nil {
		rec["shared"] = in.shared
	}
	if in.parent != nil {
		rec["parentlink"] = in.parent
	}
	if in.index != nil {
		rec["noindex"] = in.index
	}
	return []core.Rec{rec}
}
