package dschema

import (
	"fmt"
	"sort"
	"strings"

	"verif/internal/core"

	"github.com/freeconf/yang/meta"
	"github.com/freeconf/yang/parser"
)

func init() {
	core.Executors["dev"] = execDev
	core.Executors["devm"] = execDevMulti
}

// case {kind:"devm", dkind: add|delete, prop: must|unique, have: [values the target states], vals: [values in
// the one deviate block]}
func execDevMulti(c core.Case) []core.Rec {
	dkind := c["dkind"].(string)
	prop := c["prop"].(string)
	strs := func(v any) []string {
		out := []string{}
		if xs, ok := v.([]any); ok {
			for _, x := range xs {
				out = append(out, fmt.Sprint(x))
			}
		}
		if xs, ok := v.([]string); ok {
			out = append(out, xs...)
		}
		return out
	}
	have, vals := strs(c["have"]), strs(c["vals"])
	p := DevProps[prop]
	stmts := func(vs []string) string {
		var sb strings.Builder
		for _, v := range vs {
			sb.WriteString(" " + p.Stmt(v))
		}
		return sb.String()
	}
	module := func(deviate string) string {
		leafProp, listProp, target := "", "", "/c/t"
		if p.Target == "leaf" {
			leafProp = stmts(have)
		} else {
			listProp, target = stmts(have), "/c/tl"
		}
		dev := ""
		if deviate != "" {
			dev = fmt.Sprintf(" deviation %s { %s }\n", target, deviate)
		}
		return "module D {\n namespace \"urn:d\";\n prefix \"d\";\n revision 2024-01-01;\n container c {\n" +
			"  leaf t { type string;" + leafProp + " }\n  leaf sib { type string; }\n" +
			"  list tl { key \"k\"; leaf k { type string; } leaf u1 { type string; } leaf u2 { type string; } leaf u3 { type string; } leaf u4 { type string; }" + listProp + " }\n }\n" + dev + "}"
	}
	res := core.Rec{"panic": false, "err": false, "msg": ""}
	rec := core.Rec{"chk": "devm", "kind": dkind, "prop": prop, "have": have, "vals": vals, "res": res, "got": []string{},
		"sig": core.Rec{"kind": dkind, "prop": prop, "nhave": len(have), "nvals": len(vals)}}
	func() {
		defer func() {
			if r := recover(); r != nil {
				res["panic"] = true
				res["msg"] = fmt.Sprint(r)
			}
		}()
		if _, err := parser.LoadModuleFromString(MemOpener(nil), module("")); err != nil {
			res["msg"] = "harness: base module does not load: " + err.Error()
			rec["chk"] = "skip"
			return
		}
		m, err := parser.LoadModuleFromString(MemOpener(nil), module(fmt.Sprintf("deviate %s {%s }", dkind, stmts(vals))))
		if err != nil {
			res["err"] = true
			res["msg"] = err.Error()
			return
		}
		target := "t"
		if p.Target == "list" {
			target = "tl"
		}
		got := []string{}
		if v := snapshot(m)[target][prop]; v != "" {
			got = strings.Split(v, "|")
		}
		rec["got"] = got
	}()
	return []core.Rec{rec}
}

// devProps: property -> (statement text for a value, target kind)
type devProp struct {
	Stmt   func(v string) string
	Target string // "leaf" | "list"
	Multi  bool
	Old    string
	New    string
}

var DevProps = map[string]devProp{
	"config":       {Stmt: func(v string) string { return "config " + v + ";" }, Target: "leaf", Old: "true", New: "false"},
	"mandatory":    {Stmt: func(v string) string { return "mandatory " + v + ";" }, Target: "leaf", Old: "false", New: "true"},
	"units":        {Stmt: func(v string) string { return "units \"" + v + "\";" }, Target: "leaf", Old: "meters", New: "feet"},
	"default":      {Stmt: func(v string) string { return "default \"" + v + "\";" }, Target: "leaf", Old: "dx", New: "dy"},
	"must":         {Stmt: func(v string) string { return "must \"" + v + "\";" }, Target: "leaf", Multi: true, Old: "../sib = 'x'", New: "../sib != 'q'"},
	"min-elements": {Stmt: func(v string) string { return "min-elements " + v + ";" }, Target: "list", Old: "1", New: "2"},
	"max-elements": {Stmt: func(v string) string { return "max-elements " + v + ";" }, Target: "list", Old: "10", New: "5"},
	"unique":       {Stmt: func(v string) string { return "unique \"" + v + "\";" }, Target: "list", Multi: true, Old: "u1", New: "u2"},
}

// devModule renders the module; had: the target states the property with value Old.
func devModule(prop string, had bool, deviate string) string {
	p := DevProps[prop]
	leafProp, listProp := "", ""
	if had {
		if p.Target == "leaf" {
			leafProp = " " + p.Stmt(p.Old)
		} else {
			listProp = " " + p.Stmt(p.Old)
		}
	}
	dev := ""
	if deviate != "" {
		target := "/c/t"
		if p.Target == "list" {
			target = "/c/tl"
		}
		dev = fmt.Sprintf(" deviation %s { %s }\n", target, deviate)
	}
	return "module D {\n namespace \"urn:d\";\n prefix \"d\";\n revision 2024-01-01;\n container c {\n" +
		"  leaf t { type string;" + leafProp + " }\n" +
		"  leaf sib { type string; units \"s\"; default \"x\"; }\n" +
		"  list tl { key \"k\"; leaf k { type string; } leaf u1 { type string; } leaf u2 { type string; }" + listProp + " }\n" +
		"  leaf after { type int32; }\n }\n" + dev + "}"
}

// snapshot renders every property of every node below /c as text.
func snapshot(m *meta.Module) map[string]map[string]string {
	out := map[string]map[string]string{}
	c, _ := meta.Find(m, "c").(meta.HasDataDefinitions)
	if c == nil {
		return out
	}
	for _, d := range c.DataDefinitions() {
		props := map[string]string{}
		if hd, ok := d.(meta.HasDetails); ok {
			props["config"] = fmt.Sprint(hd.Config())
			props["mandatory"] = fmt.Sprint(hd.Mandatory())
		}
		if l, ok := d.(*meta.Leaf); ok {
			props["units"] = l.Units()
			if l.HasDefault() {
				props["default"] = fmt.Sprint(l.DefaultValue())
			} else {
				props["default"] = ""
			}
			props["type"] = l.Type().Ident()
		}
		if hm, ok := d.(meta.HasMusts); ok {
			var ms []string
			for _, mu := range hm.Musts() {
				ms = append(ms, mu.Expression())
			}
			props["must"] = strings.Join(ms, "|")
		}
		if l, ok := d.(*meta.List); ok {
			props["min-elements"] = ""
			if l.IsMinElementsSet() {
				props["min-elements"] = fmt.Sprint(l.MinElements())
			}
			props["max-elements"] = ""
			if l.IsMaxElementsSet() {
				props["max-elements"] = fmt.Sprint(l.MaxElements())
			}
			var us []string
			for _, u := range l.Unique() {
				us = append(us, strings.Join(u, " "))
			}
			props["unique"] = strings.Join(us, "|")
		}
		out[d.Ident()] = props
	}
	return out
}

func order(m *meta.Module) string {
	c, _ := meta.Find(m, "c").(meta.HasDataDefinitions)
	if c == nil {
		return ""
	}
	var names []string
	for _, d := range c.DataDefinitions() {
		names = append(names, d.Ident())
	}
	return strings.Join(names, ",")
}

// case {kind:"dev", dkind, prop, had, same}
func execDev(c core.Case) []core.Rec {
	dkind := c["dkind"].(string)
	prop := c["prop"].(string)
	had, _ := c["had"].(bool)
	same, _ := c["same"].(bool)
	p := DevProps[prop]
	val := p.New
	if dkind == "delete" && same {
		val = p.Old
	}
	deviate := ""
	switch dkind {
	case "not-supported":
		deviate = "deviate not-supported;"
	default:
		deviate = fmt.Sprintf("deviate %s { %s }", dkind, p.Stmt(val))
	}
	target := "t"
	if p.Target == "list" {
		target = "tl"
	}
	res := core.Rec{"panic": false, "err": false, "msg": ""}
	rec := core.Rec{"chk": "dev", "kind": dkind, "prop": prop, "multi": p.Multi, "had": had, "same": same, "old": p.Old, "new": val, "res": res,
		"got": "", "others_same": true, "sig": core.Rec{"kind": dkind, "prop": prop, "had": had, "same": same}}
	func() {
		defer func() {
			if r := recover(); r != nil {
				res["panic"] = true
				res["msg"] = fmt.Sprint(r)
			}
		}()
		base, err := parser.LoadModuleFromString(MemOpener(nil), devModule(prop, had, ""))
		if err != nil {
			res["msg"] = "harness: base module does not load: " + err.Error()
			rec["chk"] = "skip"
			return
		}
		m, err := parser.LoadModuleFromString(MemOpener(nil), devModule(prop, had, deviate))
		if err != nil {
			res["err"] = true
			res["msg"] = err.Error()
			return
		}
		before, after := snapshot(base), snapshot(m)
		if tp, ok := after[target]; ok {
			rec["got"] = tp[prop]
		} else {
			rec["got"] = "<absent>"
		}
		// everything else unchanged
		same := true
		var names []string
		for n := range before {
			names = append(names, n)
		}
		sort.Strings(names)
		for _, n := range names {
			if n == target && dkind == "not-supported" {
				continue
			}
			if _, ok := after[n]; !ok {
				same = false
				continue
			}
			for k, v := range before[n] {
				if n == target && k == prop {
					continue
				}
				if after[n][k] != v {
					same = false
				}
			}
		}
		wantOrder := order(base)
		if dkind == "not-supported" {
			wantOrder = strings.ReplaceAll(strings.ReplaceAll(","+wantOrder+",", ","+target+",", ","), ",,", ",")
			wantOrder = strings.Trim(wantOrder, ",")
		}
		if order(m) != wantOrder {
			same = false
		}
		rec["others_same"] = same
	}()
	if msg := fmt.Sprint(res["msg"]); len(msg) > 140 {
		res["msg"] = msg[:140]
	}
	return []core.Rec{rec}
}
