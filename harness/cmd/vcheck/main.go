// vcheck: one CLI for all property checks.
//
//	vcheck run <property> <tier>      run the check (exit 0 held / 1 violation / 2 inconclusive)
//	vcheck worker                     internal: execute cases from stdin
//	vcheck replay <file>              re-execute the case of a replay file and re-evaluate it
package main

import (
	"encoding/json"
	"fmt"
	"os"
	"strconv"
	"verif/internal/dshared"

	"verif/internal/core"
	"verif/internal/dval"
	"verif/internal/fx"
	"verif/internal/plans"
)

func main() {
	if len(os.Args) < 2 {
		fmt.Fprintln(os.Stderr, "usage: vcheck run <property> <tier> | worker | replay <file>")
		os.Exit(2)
	}
	defer cleanup()
	switch os.Args[1] {
	case "raceworker":
		dshared.RaceWorker()
	case "worker":
		core.WorkerMain()
	case "gen":
		// regenerate the committed abstract schemas of the fixtures (spec/<name>.json)
		for name := range fx.Sources {
			f, err := fx.Load(name)
			if err != nil {
				fmt.Fprintln(os.Stderr, err)
				exit(2)
			}
			if err := f.WriteDS(); err != nil {
				fmt.Fprintln(os.Stderr, err)
				exit(2)
			}
			fmt.Println("wrote", f.DSFile)
		}
	case "run":
		if len(os.Args) < 4 {
			fmt.Fprintln(os.Stderr, "usage: vcheck run <property> <tier>")
			os.Exit(2)
		}
		prop, tier := os.Args[2], os.Args[3]
		if t := os.Getenv("VERIF_TIER"); t != "" && len(os.Args) < 5 {
			_ = t
		}
		seed := int64(1)
		if s := os.Getenv("VERIF_SEED"); s != "" {
			if n, err := strconv.ParseInt(s, 10, 64); err == nil {
				seed = n
			}
		}
		mk := plans.Registry[prop]
		if mk == nil {
			fmt.Fprintf(os.Stderr, "no check for property %s\n", prop)
			os.Exit(2)
		}
		p, err := mk(tier, seed)
		if err != nil {
			fmt.Fprintf(os.Stderr, "INCONCLUSIVE: cannot build plan: %v\n", err)
			exit(2)
		}
		exit(core.Run(p))
	case "replay":
		b, err := os.ReadFile(os.Args[2])
		if err != nil {
			fmt.Fprintln(os.Stderr, err)
			exit(2)
		}
		var rp struct {
			Property   string            `json:"property"`
			Class      string            `json:"class"`
			EvalModule string            `json:"eval_module"`
			EvalEnv    map[string]string `json:"eval_env"`
			Isolated   bool              `json:"isolated"`
			Case       core.Case         `json:"case"`
		}
		if err := json.Unmarshal(b, &rp); err != nil {
			fmt.Fprintln(os.Stderr, err)
			exit(2)
		}
		var recs []core.Rec
		if rp.Isolated && os.Getenv("VERIF_NOPANIC") == "" {
			recs, _ = core.RunIsolated([]core.Case{rp.Case}, 0)
		} else {
			recs = core.ExecCase(rp.Case)
		}
		mm, _, err := core.EvalRecords(rp.EvalModule, rp.EvalEnv, recs)
		if err != nil {
			fmt.Fprintln(os.Stderr, err)
			exit(2)
		}
		for _, r := range recs {
			delete(r, "case")
			jb, _ := json.Marshal(r)
			fmt.Println(string(jb))
		}
		for _, m := range mm {
			fmt.Printf("NOT ALLOWED BY SPEC: record %d class=%s\n", m.Index, m.Class)
		}
		if len(mm) > 0 {
			fmt.Printf("VIOLATION property=%s replay=%s\n", rp.Property, os.Args[2])
			exit(1)
		}
		exit(0)
	default:
		fmt.Fprintln(os.Stderr, "unknown command", os.Args[1])
		os.Exit(2)
	}
}

func cleanup() {
	if dval.LinesTmp != "" {
		os.Remove(dval.LinesTmp)
	}
	for _, f := range core.TempFiles {
		os.RemoveAll(f)
	}
}

func exit(code int) {
	cleanup()
	os.Exit(code)
}
