#!/usr/bin/env python3
"""Builds the table of DESIGN.md section 15 from seeded/<id>/meta.json and seeded/_results/<id>.json."""
import json, glob, os, re
root = os.path.join(os.path.dirname(os.path.abspath(__file__)), "..", "seeded")
rows = []
for d in sorted(glob.glob(os.path.join(root, "C[0-9][0-9][a-z]"))):
    sid = os.path.basename(d)
    meta = json.load(open(os.path.join(d, "meta.json")))
    res = {}
    rp = os.path.join(root, "_results", sid + ".json")
    if os.path.exists(rp):
        res = json.load(open(rp))
    files = meta.get("files") or []
    if isinstance(files, dict):
        files = list(files.keys())
    if isinstance(files, str):
        files = [files]
    where = ", ".join(sorted({re.sub(r"^/tmp/wt-[^/]*/", "", f).split(" ")[0] for f in files if "/" in f and "seeded" not in f}))[:60]
    summ = (meta.get("summary") or meta.get("mechanism") or "")
    summ = re.sub(r"\s+", " ", summ)[:150].replace("|", "\\|")
    q, t = res.get("quick_exit"), res.get("thorough_exit")
    classes = ""
    lp = os.path.join(root, "_results", sid + ".log")
    if os.path.exists(lp):
        m = re.findall(r"class=([a-z0-9\-]+)", open(lp).read())
        seen = []
        for c in m:
            if c not in seen:
                seen.append(c)
        classes = ", ".join(seen[:3])
    if meta.get("superseded"):
        verdict = "does not apply to HEAD"
        classes = ""
    elif q == 1:
        verdict = "quick"
    elif str(t) == "1":
        verdict = "thorough only"
    elif q is None:
        verdict = "not run"
    else:
        verdict = "MISSED (quick %s, thorough %s)" % (q, t)
    rows.append((sid, where, summ, verdict, classes))
print("| seeded change | where | what it does | caught by | as (spec class) |")
print("|---|---|---|---|---|")
for r in rows:
    print("| %s | %s | %s | %s | %s |" % r)
