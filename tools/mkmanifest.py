#!/usr/bin/env python3
"""Regenerates MANIFEST.json from tools/manifest_src.json (one place to edit)."""
import json, sys
src = json.load(open('/verif/tools/manifest_src.json'))
checks = []
for c in src['checks']:
    pid = c['id']
    checks.append({
        "property_id": pid,
        "quick_cmd": f"bin/check {pid} quick",
        "thorough_cmd": f"bin/check {pid} thorough",
        "evidence_file": f"/verif/evidence/{pid}.json",
        "replay_cmd_template": ".build/vcheck replay {path}",
        "engine": "tlc",
        "level_claimed": {"category": c['level'], "text": c['text'], "design_ref": c.get('design_ref', 'DESIGN.md section 7 ' + pid)},
        "level_note": c['note'],
        "technique": c['technique'],
    })
claimed = {c['id'] for c in src['checks']}
props = [json.loads(l)['id'] for l in open('/verif/properties.jsonl')]
na = [x for x in src.get('not_applicable', []) if x['property_id'] not in claimed]
for p in props:
    if p not in claimed and p not in {x['property_id'] for x in na}:
        na.append({"property_id": p, "reason": "check not built yet in this round (planned, see DESIGN.md section 7); no claim is made"})
m = {
    "version": 1,
    "setup_cmd": "bin/setup",
    "hooks": src['hooks'],
    "engines": [{"name": "tlc", "path": "/opt/veriftools/tla/tla2tools.jar", "serves_properties": sorted(claimed),
                 "kind_free_text": "explicit TLA+ specifications (spec/*.tla) model checked with TLC; every record observed from the real implementation is evaluated by TLC against the specification (record-mode and behaviour-mode trace validation)"}],
    "checks": checks,
    "notes": src.get('notes', ''),
    "not_applicable": na,
}
json.dump(m, open('/verif/MANIFEST.json', 'w'), indent=1)
print("checks:", len(checks), "not_applicable:", len(na))
