#!/bin/bash
# usage: tools/seedrun-par.sh <seed-id> [src-dir]
# Like seedrun.sh but leaves /repo alone: the seeded change is applied in a scratch worktree and the
# checks run from a scratch copy of /verif built against that worktree (VERIF_REPO), so several
# seeded changes can be tried at the same time.  Results go to /verif/seeded/_results.
export GOFLAGS=-mod=mod GOPROXY=off GOSUMDB=off GOTOOLCHAIN=local
id=$1; src=${2:-/verif/seeded}; prop=${id%[a-z]}
d=$src/$id
out=/verif/seeded/_results; mkdir -p $out
log=$out/$id.log; : > $log
say() { echo "$@" | tee -a $log; }
[ -f $d/patch.diff ] || { say "$id: no patch"; exit 2; }
wt=/tmp/wt-confirm-$id; vm=/tmp/vm-$id
git -C /repo worktree remove --force $wt >/dev/null 2>&1
git -C /repo worktree add -f --detach $wt HEAD >/dev/null 2>&1 || { say "$id: cannot create worktree"; exit 2; }
cleanup() { git -C /repo worktree remove --force $wt >/dev/null 2>&1; rm -rf /tmp/demo-$id $vm; }
trap cleanup EXIT
if ! git -C $wt apply $d/patch.diff 2>>$log; then say "$id: CONFIRM patch does not apply to HEAD"; exit 3; fi
if ! (cd $wt && go build ./... >>$log 2>&1); then say "$id: CONFIRM does not build"; exit 3; fi
if (cd $wt && go test -vet=off -count=1 ./... 2>&1 | tee -a $log | grep -q "^FAIL\|^--- FAIL"); then say "$id: CONFIRM repository tests FAIL with the change"; exit 3; fi
say "$id: confirm: applies, builds, repository tests pass"
if [ -d $d/demo ] && [ -f $d/demo/go.mod ]; then
  rm -rf /tmp/demo-$id; cp -r $d/demo /tmp/demo-$id
  sed -i "s#=> /tmp/wt-[A-Za-z0-9-]*#=> $wt#" /tmp/demo-$id/go.mod; cp $wt/go.sum /tmp/demo-$id/ 2>/dev/null
  (cd /tmp/demo-$id && timeout 900 go run $(grep -q race $d/meta.json && echo -race) . > /tmp/demo-$id/changed.txt 2>&1); c1=$?
  git -C $wt apply -R $d/patch.diff
  (cd /tmp/demo-$id && timeout 900 go run $(grep -q race $d/meta.json && echo -race) . > /tmp/demo-$id/unchanged.txt 2>&1); c2=$?
  git -C $wt apply $d/patch.diff
  if cmp -s /tmp/demo-$id/changed.txt /tmp/demo-$id/unchanged.txt; then say "$id: CONFIRM demo output identical on changed and unchanged tree (exit $c1/$c2)"; else say "$id: confirm: demo differs (exit changed=$c1 unchanged=$c2)"; fi
  tail -3 /tmp/demo-$id/changed.txt >> $log
elif [ -f $d/demo_test.go ]; then
  pkg=$(grep -o '"\./[a-z]*/\?"\|\./[a-z]*/' $d/meta.json | head -1 | tr -d '"./')
  [ -z "$pkg" ] && pkg=$(grep -o 'wt-[A-Z0-9]*/[a-z]*/' $d/meta.json | head -1 | sed 's#.*/\([a-z]*\)/#\1#')
  if [ -n "$pkg" ] && [ -d $wt/$pkg ]; then
    cp $d/demo_test.go $wt/$pkg/zz_seed_demo_test.go
    (cd $wt && go test -vet=off -count=1 -run 'Demo|C[0-9][0-9]' -v ./$pkg/ > /tmp/demo-$id.changed.txt 2>&1); c1=$?
    git -C $wt apply -R $d/patch.diff
    (cd $wt && go test -vet=off -count=1 -run 'Demo|C[0-9][0-9]' -v ./$pkg/ > /tmp/demo-$id.unchanged.txt 2>&1); c2=$?
    git -C $wt apply $d/patch.diff; rm -f $wt/$pkg/zz_seed_demo_test.go
    if diff <(grep -v "^ok\|^---\|^===\|^PASS\|^FAIL\|(.*s)$" /tmp/demo-$id.changed.txt) <(grep -v "^ok\|^---\|^===\|^PASS\|^FAIL\|(.*s)$" /tmp/demo-$id.unchanged.txt) >/dev/null; then say "$id: CONFIRM demo test output identical (exit $c1/$c2)"; else say "$id: confirm: demo test differs (exit changed=$c1 unchanged=$c2)"; fi
    rm -f /tmp/demo-$id.changed.txt /tmp/demo-$id.unchanged.txt
  else
    say "$id: demo_test.go: package not found in meta.json - not re-run"
  fi
fi
rsync -a --exclude .build --exclude evidence --exclude seeded --exclude .git /verif/ $vm/
mkdir -p $vm/evidence/replay
t0=$(date +%s)
VERIF_DIR=$vm VERIF_REPO=$wt $vm/bin/check $prop quick > $out/$id.quick.txt 2>&1; q=$?
t1=$(date +%s)
say "$id: $prop quick exit=$q ($((t1-t0))s) $(grep -c '^VIOLATION' $out/$id.quick.txt) violation lines"
grep "^  class=" $out/$id.quick.txt | sort | uniq -c | sort -rn | head -4 | cut -c1-220 >> $log
th=-
if [ $q -eq 0 ] && [ -z "$QUICK_ONLY" ]; then
  VERIF_DIR=$vm VERIF_REPO=$wt timeout 5400 $vm/bin/check $prop thorough > $out/$id.thorough.txt 2>&1; th=$?
  t2=$(date +%s)
  say "$id: $prop thorough exit=$th ($((t2-t1))s) $(grep -c '^VIOLATION' $out/$id.thorough.txt) violation lines"
  grep "^  class=" $out/$id.thorough.txt | sort | uniq -c | sort -rn | head -4 | cut -c1-220 >> $log
fi
echo "{\"id\":\"$id\",\"property\":\"$prop\",\"quick_exit\":$q,\"thorough_exit\":\"$th\"}" > $out/$id.json
