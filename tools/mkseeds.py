#!/usr/bin/env python3
"""Writes spec/yangseeds.json: the module sets the refactoring machine (YangRefactor) starts from."""
import json, os

def st(k, n, **kw):
    d = dict(k=k, n=n, ref0=dict(p="", g=""), cfg="", mand="", dflt="", desc="", iff="", keys=[], c=[], gs=[], ref=[], aug=[])
    d.update(kw)
    return d

def leaf(n, **kw): return st("leaf", n, **kw)
def cont(n, *c, **kw): return st("container", n, c=list(c), **kw)
def lst(n, keys, *c, **kw): return st("list", n, keys=keys, c=list(c), **kw)
def choice(n, *c, **kw): return st("choice", n, c=list(c), **kw)
def case(n, *c, **kw): return st("case", n, c=list(c), **kw)
def uses(g, p="", ref=(), aug=(), **kw): return st("uses", g, ref0=dict(p=p, g=g), ref=list(ref), aug=list(aug), **kw)
def grouping(n, *c, gs=()): return dict(n=n, c=list(c), gs=list(gs))
def module(name, prefix, body, gs=(), augs=(), includes=(), imports=(), sub=False, belongs=""):
    return dict(name=name, prefix=prefix, sub=sub, belongs=belongs, gs=list(gs), body=list(body), augs=list(augs),
                includes=list(includes), imports=list(imports))

seed1 = {"m": module("m", "m",
    gs=[grouping("g0", leaf("a", dflt="1", desc="da"), cont("in", leaf("b"), leaf("c", mand="true"), cfg="false"))],
    body=[
        cont("top", uses("g0"), leaf("z"), cont("st", leaf("s1"), leaf("s2", desc="two"), cfg="false")),
        cont("dup", uses("g0")),
        lst("l", ["k"], leaf("k"), leaf("v", dflt="7"),
            choice("ch", case("ca", leaf("x1")), case("cb", leaf("x2"), leaf("x3")))),
        leaf("opt", iff="f1"),
        cont("last", leaf("q"), leaf("r", iff="f1")),
    ])}

seed2 = {
  "m": module("m", "m", includes=["s1"], imports=[dict(m="lib", p="lb")],
    body=[
        cont("c1", uses("lg", p="lb", ref=[dict(path=["la"], attr="dflt", val="9")],
                        aug=[dict(path=["lc"], c=[leaf("extra")])]), leaf("own")),
        cont("c2", leaf("d"), cont("e", leaf("f"), leaf("h", cfg="false")), cfg="false"),
        choice("pick", leaf("short1"), case("long", leaf("l1"), leaf("l2"))),
    ],
    augs=[dict(path=["c1", "lc"], c=[leaf("viaaug")], mod="")]),
  "s1": module("s1", "m", sub=True, belongs="m", imports=[dict(m="lib", p="lb")],
    gs=[grouping("sg", leaf("sl", desc="from sub"))],
    body=[cont("fromsub", uses("sg"), leaf("t"))]),
  "lib": module("lib", "lb", [], gs=[grouping("lg", leaf("la"), cont("lc", leaf("lb1")))]),
}

out = os.path.join(os.path.dirname(os.path.abspath(__file__)), "..", "spec", "yangseeds.json")
json.dump([seed1, seed2], open(out, "w"), indent=0)
print("wrote", out)
