#!/usr/bin/env python3
"""Writes spec/yangseeds.json: the module sets the refactoring machine (YangRefactor) starts from."""
import json, os

def st(k, n, **kw):
    d = dict(k=k, n=n, ref0=dict(p="", g=""), cfg="", mand="", dflt="", desc="", iff="", keys=[], c=[], gs=[], ref=[], aug=[],
             ty=dict(p="", n="", rng="", len="", en=[], base=dict(p="", n=""), mem=[], path=[]), units="", tds=[], et=dict(base="", rngs=[], lens=[], en=[], ids=[], mems=[], path=[], tgt=""))
    if k in ("leaf", "leaflist") and "ty" not in kw:
        d["ty"] = dict(p="", n="string", rng="", len="", en=[], base=dict(p="", n=""), mem=[], path=[])
    d.update(kw)
    return d

def leaf(n, **kw): return st("leaf", n, **kw)
def leaflist(n, **kw): return st("leaflist", n, **kw)
def cont(n, *c, **kw): return st("container", n, c=list(c), **kw)
def lst(n, keys, *c, **kw): return st("list", n, keys=keys, c=list(c), **kw)
def choice(n, *c, **kw): return st("choice", n, c=list(c), **kw)
def case(n, *c, **kw): return st("case", n, c=list(c), **kw)
def uses(g, p="", ref=(), aug=(), **kw): return st("uses", g, ref0=dict(p=p, g=g), ref=list(ref), aug=list(aug), **kw)
def grouping(n, *c, gs=(), tds=()): return dict(n=n, c=list(c), gs=list(gs), tds=list(tds))
def ty(n, p="", rng="", en=(), base=("", ""), len="", mem=(), path=()): return dict(p=p, n=n, rng=rng, len=len, en=[dict(l=l, v=v) for l, v in en], base=dict(p=base[0], n=base[1]), mem=list(mem), path=list(path))
def identity(n, *bases): return dict(n=n, bases=[dict(p=p, n=b) for p, b in bases])
def typedef(n, t, dflt="", units=""): return dict(n=n, ty=t, dflt=dflt, units=units)
def module(name, prefix, body, gs=(), tds=(), augs=(), includes=(), imports=(), sub=False, belongs="", ids=()):
    return dict(name=name, prefix=prefix, sub=sub, belongs=belongs, gs=list(gs), tds=list(tds), ids=list(ids), body=list(body), augs=list(augs),
                includes=list(includes), imports=list(imports))

seed1 = {"m": module("m", "m",
    gs=[grouping("g0", leaf("a", dflt="1", desc="da"), cont("in", leaf("b"), leaf("c", mand="true"), cfg="false"))],
    body=[
        cont("top", uses("g0"), leaf("z"), cont("st", leaf("s1"), leaf("s2", desc="two"), cfg="false")),
        cont("dup", uses("g0")),
        lst("l", ["k"], leaf("k"), leaf("v", dflt="7"),
            choice("ch", case("ca", leaf("x1")), case("cb", leaf("x2"), leaf("x3")))),
        leaf("opt", iff="f1"),
        cont("last", leaf("q"), leaf("r", iff="f1")),
    ])}

seed2 = {
  "m": module("m", "m", includes=["s1"], imports=[dict(m="lib", p="lb")],
    body=[
        cont("c1", uses("lg", p="lb", ref=[dict(path=["la"], attr="dflt", val="9")],
                        aug=[dict(path=["lc"], c=[leaf("extra")])]), leaf("own")),
        cont("c2", leaf("d"), cont("e", leaf("f"), leaf("h", cfg="false")), cfg="false"),
        choice("pick", leaf("short1"), case("long", leaf("l1"), leaf("l2"))),
    ],
    augs=[dict(path=["c1", "lc"], c=[leaf("viaaug")], mod=""),
          dict(path=["pick"], c=[leaf("tok"), cont("crt", leaf("cl"))], mod="")]),
  "s1": module("s1", "m", sub=True, belongs="m", imports=[dict(m="lib", p="lb")],
    gs=[grouping("sg", leaf("sl", desc="from sub"))],
    body=[cont("fromsub", uses("sg"), leaf("t"))]),
  "lib": module("lib", "lb", [], gs=[grouping("lg2", leaf("l2", dflt="two")),
                                     grouping("lg", uses("lg2"), leaf("la"), cont("lc", leaf("lb1"), uses("lg3")),
                                              gs=[grouping("lg3", leaf("l3"))])]),
}

# uses-augment that adds a case holding a uses; a submodule included by a submodule (with a body
# node and a module-level augment of its own); a grouping that shadows nothing but lives in a container
seed3 = {
  "m": module("m", "m", includes=["s1"],
    gs=[grouping("base", leaf("bl"), choice("how", case("x", leaf("lx")))),
        grouping("endpoint", leaf("port", dflt="80"), leaf("host")),
        grouping("ga", leaf("gl"), st("action", "ping", c=[leaf("state"), leaf("since")]),
                 st("action", "reset", c=[leaf("code")], desc="with-input"))],
    body=[
        cont("c", uses("base", aug=[dict(path=["how"], c=[case("y", uses("endpoint"))])]), leaf("after")),
        cont("box", uses("inner"), leaf("bx"), gs=[grouping("inner", leaf("il", desc="inner one"))]),
        cont("top", leaf("t1"), leaf("t2")),
        cont("svc1", uses("ga")),
        cont("svc2", uses("ga"), leaf("own2")),
    ]),
  "s1": module("s1", "m", sub=True, belongs="m", includes=["s2"],
    body=[cont("from-s1", leaf("a1"))]),
  "s2": module("s2", "m", sub=True, belongs="m",
    gs=[grouping("g2", leaf("deep"))],
    body=[cont("from-s2", uses("g2"))],
    augs=[dict(path=["top"], c=[leaf("added-by-s2")], mod="")]),
}

# C02: typedef chains, scopes, reuse
tseed1 = {"m": module("m", "m",
    tds=[typedef("t1", ty("int32", rng="0..100"), dflt="5", units="u1"),
         typedef("t2", ty("t1", rng="10..50")),
         typedef("blob", ty("binary", len="1..16")), typedef("short", ty("string", len="1..8"), dflt="ab"),
         typedef("en", ty("enumeration", en=[("a", -1), ("b", 7), ("c", -1), ("d", 3), ("e", -1)]), dflt="b")],
    gs=[grouping("g", leaf("x", ty=ty("t2", rng="20..30")), leaf("y", ty=ty("t2"), dflt="11", units="mine"), leaf("e", ty=ty("en")))],
    body=[
        cont("c1", uses("g")),
        cont("c2", uses("g"), leaf("own", ty=ty("t1"))),
        leaf("z", ty=ty("t1")),
        leaf("s", ty=ty("string"), dflt="d", units="us"),
        cont("inner", leaf("li", ty=ty("lt")), leaf("n", ty=ty("int32", rng="1..9"), dflt="4"),
             tds=[typedef("lt", ty("uint8", rng="1..200"), dflt="3")]),
        # a sibling scope with its own typedef of the same name
        cont("blobs", leaf("key", ty=ty("blob")), leaf("kr", ty=ty("blob", len="16")), leaf("sk", ty=ty("short", len="2..3")),
             leaf("sd", ty=ty("string", len="0..9"))),
        cont("inner2", leaf("li2", ty=ty("lt")), tds=[typedef("lt", ty("string"), dflt="hi", units="chars")]),
    ])}

tseed2 = {
  "m": module("m", "m", includes=["s1"], imports=[dict(m="lib", p="lb")],
    tds=[typedef("loc", ty("lt", p="lb"), units="here")],
    body=[
        cont("a", leaf("p", ty=ty("lt", p="lb")), leaf("q", ty=ty("loc"), dflt="9"), leaf("r", ty=ty("st"))),
        cont("b", uses("lg", p="lb"), uses("sg")),
    ]),
  "s1": module("s1", "m", sub=True, belongs="m", imports=[dict(m="lib", p="lb")],
    tds=[typedef("st", ty("int8", rng="-5..5"), dflt="1", units="sub-units")],
    gs=[grouping("sg", leaf("sl", ty=ty("st")), leaf("sl2", ty=ty("loc")))],
    body=[cont("fromsub", uses("sg"))]),
  "lib": module("lib", "lb", [], tds=[typedef("lt", ty("uint16", rng="1..1000"), dflt="80", units="ports")],
                gs=[grouping("lg", leaf("la", ty=ty("lt")), leaf("lb1", ty=ty("string")))]),
}
# identities derived in modules that are reached only through a module without identities of its own
tseed3 = {
  "m": module("m", "m", imports=[dict(m="baseids", p="b"), dict(m="bundle", p="bu")],
    ids=[identity("mine", ("b", "transport")), identity("both", ("b", "secure"), ("", "mine")), identity("local", ("b", "local"), ("m", "mine"))],
    tds=[typedef("tr", ty("identityref", base=("b", "transport")), dflt="local")],
    body=[
        leaf("proto", ty=ty("identityref", base=("b", "transport"))),
        leaf("p2", ty=ty("tr")),
        leaf("sec", ty=ty("identityref", base=("b", "secure"))),
        cont("holder", leaf("inner", ty=ty("identityref", base=("", "mine")))),
    ]),
  "baseids": module("baseids", "b", [], ids=[identity("transport"), identity("local", ("", "transport")), identity("secure")]),
  "bundle": module("bundle", "bu", [], imports=[dict(m="exttcp", p="t"), dict(m="extudp", p="u")]),
  "exttcp": module("exttcp", "t", [], imports=[dict(m="baseids", p="b")],
                   ids=[identity("tcp", ("b", "transport")), identity("tls", ("", "tcp"), ("b", "secure")), identity("stls", ("b", "secure"), ("", "tcp")),
                        identity("secure", ("b", "secure"), ("t", "tls"))]),
  "extudp": module("extudp", "u", [], imports=[dict(m="baseids", p="b")], ids=[identity("udp", ("b", "transport"))]),
}
# unions (members derived through typedefs, restricted in place), bits, leafrefs: relative, absolute,
# through a typedef, to another leafref, from a grouping used where the target has another type
tseed4 = {"m": module("m", "m",
    tds=[typedef("mt", ty("int8", rng="1..10"), dflt="3"),
         typedef("ut", ty("union", mem=[ty("mt", rng="2..5"), ty("enumeration", en=[("a", -1), ("b", 7), ("c", -1)]), ty("string", len="1..3")]), dflt="a"),
         typedef("bt", ty("bits", en=[("x", -1), ("y", 5), ("z", -1), ("w", 2), ("v", -1)]))],
    gs=[grouping("g", leaf("gu", ty=ty("ut")), leaflist("gb", ty=ty("bits", en=[("p", 3), ("q", -1)])))],
    body=[
        cont("top", leaf("u1", ty=ty("ut")), leaf("u2", ty=ty("union", mem=[ty("uint8", rng="0..9"), ty("bt"), ty("ut")])),
             leaflist("b1", ty=ty("bt")), leaflist("um", ty=ty("ut"))),
        cont("c1", uses("g")),
    ])}
tseed5 = {"m": module("m", "m",
    tds=[typedef("mt", ty("int8", rng="1..10"), dflt="3"),
         typedef("lr", ty("leafref", path=["..", "k"]))],
    gs=[grouping("g", leaf("gr", ty=ty("leafref", path=["..", "k"])))],
    body=[
        cont("top", leaf("k", ty=ty("mt")),
             leaf("r2", ty=ty("lr")), leaflist("rr", ty=ty("leafref", path=["..", "r2"])),
             cont("in", leaf("r3", ty=ty("leafref", path=["..", "..", "k"])), leaf("r4", ty=ty("leafref", path=["/", "c1", "k"])))),
        cont("c1", leaf("k", ty=ty("string", len="1..4")), uses("g")),
        cont("c2", leaf("k", ty=ty("bits", en=[("x", -1), ("y", 5)])), uses("g")),
    ])}
json.dump([tseed1, tseed2, tseed3, tseed4, tseed5], open(os.path.join(os.path.dirname(os.path.abspath(__file__)), "..", "spec", "yangtypeseeds.json"), "w"), indent=0)

out = os.path.join(os.path.dirname(os.path.abspath(__file__)), "..", "spec", "yangseeds.json")
json.dump([seed1, seed2, seed3], open(out, "w"), indent=0)
print("wrote", out)
