#!/bin/bash
# usage: tools/seedrun.sh <seed-id> [src-dir]   e.g. tools/seedrun.sh C03a /tmp/seeded
# 1. confirms the seeded change in a scratch worktree (applies, builds, repository tests pass, demo differs)
# 2. applies it to /repo, runs the property's quick (then thorough) check, undoes it
export GOFLAGS=-mod=mod GOPROXY=off GOSUMDB=off GOTOOLCHAIN=local
id=$1; src=${2:-/verif/seeded}; prop=${id%[a-z]}
d=$src/$id
out=/verif/seeded/_results; mkdir -p $out
log=$out/$id.log; : > $log
say() { echo "$@" | tee -a $log; }
[ -f $d/patch.diff ] || { say "$id: no patch"; exit 2; }
wt=/tmp/wt-confirm-$id
git -C /repo worktree remove --force $wt >/dev/null 2>&1
git -C /repo worktree add -f --detach $wt HEAD >/dev/null 2>&1 || { say "$id: cannot create worktree"; exit 2; }
cleanup() { git -C /repo worktree remove --force $wt >/dev/null 2>&1; rm -rf /tmp/demo-$id; }
trap cleanup EXIT
if ! git -C $wt apply $d/patch.diff 2>>$log; then say "$id: CONFIRM patch does not apply to HEAD"; exit 3; fi
if ! (cd $wt && go build ./... >>$log 2>&1); then say "$id: CONFIRM does not build"; exit 3; fi
if (cd $wt && go test -vet=off -count=1 ./... 2>&1 | tee -a $log | grep -q "^FAIL\|^--- FAIL"); then say "$id: CONFIRM repository tests FAIL with the change"; exit 3; fi
say "$id: confirm: applies, builds, repository tests pass"
# demo
if [ -d $d/demo ] && [ -f $d/demo/go.mod ]; then
  rm -rf /tmp/demo-$id; cp -r $d/demo /tmp/demo-$id
  sed -i "s#=> /tmp/wt-[A-Za-z0-9-]*#=> $wt#" /tmp/demo-$id/go.mod; cp $wt/go.sum /tmp/demo-$id/ 2>/dev/null
  (cd /tmp/demo-$id && timeout 600 go run -race=false . > /tmp/demo-$id/changed.txt 2>&1); c1=$?
  git -C $wt apply -R $d/patch.diff
  (cd /tmp/demo-$id && timeout 600 go run . > /tmp/demo-$id/unchanged.txt 2>&1); c2=$?
  if cmp -s /tmp/demo-$id/changed.txt /tmp/demo-$id/unchanged.txt; then say "$id: CONFIRM demo output identical on changed and unchanged tree (exit $c1/$c2)"; else say "$id: confirm: demo differs (exit changed=$c1 unchanged=$c2)"; fi
  tail -3 /tmp/demo-$id/changed.txt >> $log
else
  say "$id: demo is not a module (see meta.json) - not re-run here"
fi
# the checks, the way they are used
git -C /repo status --porcelain | grep -q . && { say "$id: /repo not clean, refusing"; exit 2; }
git -C /repo apply $d/patch.diff || { say "$id: cannot apply to /repo"; exit 2; }
cd /verif
t0=$(date +%s)
bin/check $prop quick > $out/$id.quick.txt 2>&1; q=$?
t1=$(date +%s)
say "$id: $prop quick exit=$q ($((t1-t0))s) $(grep -c '^VIOLATION' $out/$id.quick.txt) violation lines"
grep "^  class=" $out/$id.quick.txt | sort | uniq -c | sort -rn | head -4 | cut -c1-220 >> $log
th=-
if [ $q -eq 0 ]; then
  timeout 3600 bin/check $prop thorough > $out/$id.thorough.txt 2>&1; th=$?
  t2=$(date +%s)
  say "$id: $prop thorough exit=$th ($((t2-t1))s) $(grep -c '^VIOLATION' $out/$id.thorough.txt) violation lines"
  grep "^  class=" $out/$id.thorough.txt | sort | uniq -c | sort -rn | head -4 | cut -c1-220 >> $log
fi
git -C /repo checkout -- . ; git -C /repo status --porcelain | grep -q . && say "$id: WARNING /repo not clean after undo"
echo "{\"id\":\"$id\",\"property\":\"$prop\",\"quick_exit\":$q,\"thorough_exit\":\"$th\"}" > $out/$id.json
