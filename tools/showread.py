#!/usr/bin/env python3
import json,sys
def ps(p): return '/'+'/'.join(('['+','.join(s['k'])+']') if s['k'] else s['n'] for s in p)
def tree(t):
    out=[]
    for c in t['cont']: out.append(ps(c)+'/')
    for l in t['leaf']: out.append(ps(l['p'])+'='+','.join(l['v']))
    return sorted(out)
r=json.load(open(sys.argv[1])); rec=r['record']
print('class',r['class'],'impl',rec['impl'],'at',ps(rec['at']),'query',rec['query'],'res',rec['res'])
T=tree(rec['tree']); G=tree(rec['got'])
for x in T: print('  ', 'KEPT' if x in G else '    ', x)
for x in G:
    if x not in T: print('   EXTRA', x)
for o in rec['tree']['ord']: print('   ORD',ps(o['p']),[','.join(k) for k in o['keys']], 'unordered' if o['u'] else '')
