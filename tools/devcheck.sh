#!/bin/bash
# development helper: run a check from a scratch copy of /verif against a clean scratch worktree of /repo
# (used while seeded changes are being tried on /repo itself)
rsync -a --delete --exclude .build --exclude evidence --exclude seeded --exclude .git /verif/ /tmp/vm-dev/
mkdir -p /tmp/vm-dev/evidence/replay
VERIF_DIR=/tmp/vm-dev VERIF_REPO=/tmp/wt-clean /tmp/vm-dev/bin/check "$@"
