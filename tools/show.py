#!/usr/bin/env python3
import json,sys
def ps(p): return '/'+'/'.join(('['+','.join(s['k'])+']') if s['k'] else s['n'] for s in p)
def tree(t):
    out=[]
    for c in t['cont']: out.append(ps(c)+'/')
    for l in t['leaf']: out.append(ps(l['p'])+'='+','.join(l['v']))
    for o in t['ord']: out.append('ORD '+ps(o['p'])+': '+' '.join(','.join(k) for k in o['keys']))
    return sorted(out)
r=json.load(open(sys.argv[1]))
rec=r['record']
print('class',r['class'],'sig',rec['sig'])
print('op',rec['op']['k'],'at',ps(rec['op']['at']),'res',rec['res'])
pre=tree(rec['pre']); post=tree(rec['post']); s=tree(rec['op']['s'])
print('PRE '); [print('   ',x) for x in pre]
print('SRC '); [print('   ',x) for x in s]
print('POST'); [print('   ',x, '' if x in pre else '  <-- new') for x in post]
print('GONE'); [print('   ',x) for x in pre if x not in post]
