import json,glob,collections,sys
prop=sys.argv[1]
c=collections.Counter(); ex={}
for f in glob.glob('/verif/evidence/replay/%s-*'%prop):
    r=json.load(open(f)); rec=r['record']; s=rec.get('sig',{})
    k=(r['class'],s.get('kind'),s.get('shape'),s.get('frame',''), s.get('what') if r['class'] in('invalid-request-accepted',) or s.get('kind')=='setvalue' and False else '')
    c[k]+=1; ex.setdefault(k,(s.get('what'),s.get('impl'),rec.get('msg','')[:90],f.split('/')[-1]))
for k,v in sorted(c.items()): print(v,k,ex[k])
