#!/usr/bin/env python3
import json,glob,collections,sys
prop=sys.argv[1]
keys=sys.argv[2].split(',') if len(sys.argv)>2 else ['impl','src','k','at']
c=collections.Counter(); ex={}
for f in sorted(glob.glob(f'/verif/evidence/replay/{prop}-*')):
    r=json.load(open(f)); rec=r['record']
    k=(r['class'],rec.get('schema',''))+tuple(str(rec['sig'].get(x,'')) for x in keys)+(rec.get('res',{}).get('frame','') if isinstance(rec.get('res'),dict) else '',)
    c[k]+=1; ex.setdefault(k,f.split('/')[-1])
for k,v in sorted(c.items()): print(v,k,ex[k])
