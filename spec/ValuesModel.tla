---------------------------- MODULE ValuesModel ----------------------------
(***************************************************************************)
(* Model-level check for C10/C17: the laws of Values as assumptions, and a  *)
(* small state machine for a keyed list kept in a slice with a sorted index *)
(* and binary search, exactly as nodeutil's slice-backed lists do it        *)
(* (build sorted index with the comparator, lower-bound search, equality    *)
(* test).  With a comparator that is a strict total order the lookup is     *)
(* correct; LookupCorrect is the invariant.                                 *)
(***************************************************************************)
EXTENDS Values, SequencesExt

ASSUME ValuesLaws

CONSTANT Keys          \* a small set of uint8 points
VARIABLES store, lastFind, lastRes
vars == << store, lastFind, lastRes >>

K == "uint8"

\* the sorted index: permutation of store ascending by Cmp
SortedIndex(s) == SortSeq(s, LAMBDA a, b : Cmp(K, a, b) < 0)

\* sort.Search: smallest i with Cmp(idx[i], k) >= 0, or Len+1
LowerBound(idx, k) ==
    IF \E i \in DOMAIN idx : Cmp(K, idx[i], k) >= 0
    THEN CHOOSE i \in DOMAIN idx : Cmp(K, idx[i], k) >= 0 /\ \A j \in 1..(i-1) : Cmp(K, idx[j], k) < 0
    ELSE Len(idx) + 1

Find(s, k) == LET idx == SortedIndex(s)
                  i == LowerBound(idx, k)
              IN IF i <= Len(idx) /\ Cmp(K, idx[i], k) = 0 THEN idx[i] ELSE "none"

Init == store = << >> /\ lastFind = "none" /\ lastRes = "none"

Insert(k) == /\ Find(store, k) = "none"
             /\ Len(store) < 3
             /\ store' = Append(store, k)
             /\ lastFind' = "none" /\ lastRes' = "none"

Delete(k) == /\ Find(store, k) # "none"
             /\ store' = SelectSeq(store, LAMBDA x : x # k)
             /\ lastFind' = "none" /\ lastRes' = "none"

Lookup(k) == /\ lastFind' = k
             /\ lastRes' = Find(store, k)
             /\ UNCHANGED store

Next == \E k \in Keys : Insert(k) \/ Delete(k) \/ Lookup(k)

Spec == Init /\ [][Next]_vars

KeysUnique == \A i, j \in DOMAIN store : store[i] = store[j] => i = j

LookupCorrect == lastFind # "none" =>
    (lastRes = IF lastFind \in SeqRange(store) THEN lastFind ELSE "none")
=============================================================================
