------------------------------- MODULE FcEdit -------------------------------
(***************************************************************************)
(* The edit operations of the data layer as operators on abstract trees     *)
(* (C03 C09 C18; C05 adds value acceptance).  One operator per public entry  *)
(* point: Selection.UpsertFrom/InsertFrom/UpdateFrom (and the ...Into twins, *)
(* which have the same semantics with source and target swapped),            *)
(* Selection.Delete, Selection.ReplaceFrom, Selection.Set/ClearField.        *)
(*                                                                           *)
(* Two forms are given and related on the model (FcEditModel):               *)
(*   - Canon...(T, ...)  a deterministic result, used by the state machine   *)
(*   - ...OK(pre, op, res, post)  the OUTCOME PREDICATE used to judge every  *)
(*     observed call of the real code; it admits every outcome the property  *)
(*     statements leave open (DESIGN 4.5) and nothing else.                  *)
(***************************************************************************)
EXTENDS FcTree

\* an operation: [k |-> kind, at |-> path of the selection edited, s |-> source tree (absolute paths)]
\* a result:     [ok |-> BOOLEAN, err |-> "" | "conflict" | "notfound" | "other"]

-----------------------------------------------------------------------------
\* Upsert: keyed deep merge of S over T

\* data of T that lies in another case than something S writes
Switched(DS, T, S) ==
    { t \in Paths(T) : \E s \in Paths(S) : CaseConflict(DS, t, s) }

Created(T, S) == S.cont \ T.cont

LeafChildren(DS, c) ==
    { n \in SChildren(DS, SPath(c)) : n.kind \in {"leaf", "leaflist"} }

ChildPath(c, n) == Append(c, [n |-> n.sp[Len(n.sp)], k |-> << >>])

\* defaults every created container / entry must receive: leaves with a default that
\* are not inside a choice of that container
ReqDefaults(DS, T, S) ==
    LET new == { c \in Created(T, S) : IsEntry(c) \/ KindOf(DS, c) = "container" }
        items == UNION { { <<c, n>> : n \in { n \in LeafChildren(DS, c) :
                      /\ n.dflt # << >>
                      /\ Len(n.cases) = Len(SNode(DS, SPath(c)).cases)
                      /\ ChildPath(c, n) \notin DOMAIN S.leaf } } : c \in new }
    IN [ p \in { ChildPath(it[1], it[2]) : it \in items } |->
           (CHOOSE it \in items : ChildPath(it[1], it[2]) = p)[2].dflt ]

\* defaults a created container MAY receive: leaves with a default inside a case
OptDefaults(DS, T, S) ==
    LET new == { c \in Created(T, S) : IsEntry(c) \/ KindOf(DS, c) = "container" }
        items == UNION { { <<c, n>> : n \in { n \in LeafChildren(DS, c) :
                      /\ n.dflt # << >>
                      /\ Len(n.cases) > Len(SNode(DS, SPath(c)).cases)
                      /\ ChildPath(c, n) \notin DOMAIN S.leaf } } : c \in new }
    IN [ p \in { ChildPath(it[1], it[2]) : it \in items } |->
           (CHOOSE it \in items : ChildPath(it[1], it[2]) = p)[2].dflt ]

\* f overridden by g
Override(f, g) == [ p \in DOMAIN f \cup DOMAIN g |-> IF p \in DOMAIN g THEN g[p] ELSE f[p] ]

\* entry order after merging: existing keys keep their place, new keys are appended in
\* source order
\* (a source rooted at a list entry names that entry without listing its list's order:
\* at most one such entry per list)
MergeOrd(T1, S, cont) ==
    [ l \in { p \in cont : p \in DOMAIN T1.ord \/ p \in DOMAIN S.ord } |->
        LET old == IF l \in DOMAIN T1.ord THEN T1.ord[l] ELSE << >>
            listed == IF l \in DOMAIN S.ord THEN S.ord[l] ELSE << >>
            extra == { KeysOfEntry(e) : e \in { e \in S.cont : IsEntry(e) /\ FrontOf(e) = l } }
                        \ SeqToSet(listed)
            add == IF extra = {} THEN listed ELSE Append(listed, CHOOSE k \in extra : TRUE)
        IN old \o SelectSeq(add, LAMBDA k : k \notin SeqToSet(old)) ]

\* the part of the merge every admissible outcome shares
MergeCore(DS, T, S) ==
    LET T1 == Without(T, Switched(DS, T, S))
        cont == T1.cont \cup S.cont
    IN [ leaf |-> Override(Override(T1.leaf, S.leaf), ReqDefaults(DS, T, S)),
         cont |-> cont,
         ord  |-> MergeOrd(T1, S, cont) ]

\* canonical outcome: optional defaults are taken for the cases the source selects
CanonUpsert(DS, T, S) ==
    LET core == MergeCore(DS, T, S)
        opt == OptDefaults(DS, T, S)
        take == { p \in DOMAIN opt : \E s \in Paths(S) : s # p /\
                    /\ SNode(DS, SPath(s)).cases # << >>
                    /\ FrontOf(p) = AnchorAt(s, SDepth(FrontOf(p)))
                    /\ Len(SNode(DS, SPath(s)).cases) >= Len(SNode(DS, SPath(p)).cases)
                    /\ \A i \in DOMAIN SNode(DS, SPath(p)).cases :
                          SNode(DS, SPath(p)).cases[i] = SNode(DS, SPath(s)).cases[i] }
    IN [ core EXCEPT !.leaf = Override([ p \in take |-> opt[p] ], core.leaf) ]

\* a list node without entries holds no data: whether a store still shows it (an empty slice left
\* behind when the last entry was deleted, or when its case was switched away) is store specific
\* and not compared
NormEmpty(T) ==
    LET gone == { l \in DOMAIN T.ord : T.ord[l] = << >> } IN
    [ leaf |-> T.leaf, cont |-> T.cont \ gone, ord |-> [ l \in DOMAIN T.ord \ gone |-> T.ord[l] ] ]

\* outcome predicate for a successful merge
\* `uno' is the set of list paths whose order is not observable (map-backed lists, or the
\* source presents its entries in no defined order)
MergedOK(DS, uno, T, S, post0) ==
    LET core == NormEmpty(MergeCore(DS, T, S))
        post == NormEmpty(post0)
        opt == OptDefaults(DS, T, S)
    IN /\ post.cont = core.cont
       /\ \A p \in DOMAIN core.leaf : p \in DOMAIN post.leaf /\ post.leaf[p] = core.leaf[p]
       /\ \A p \in DOMAIN post.leaf \ DOMAIN core.leaf : p \in DOMAIN opt /\ post.leaf[p] = opt[p]
       /\ DOMAIN post.ord = DOMAIN core.ord
       /\ \A l \in DOMAIN core.ord :
             IF l \notin uno THEN post.ord[l] = core.ord[l]
             ELSE SeqToSet(post.ord[l]) = SeqToSet(core.ord[l]) /\ Len(post.ord[l]) = Len(core.ord[l])
       /\ OneCase(DS, post)

-----------------------------------------------------------------------------
\* Insert / Update failure conditions

\* a container, list or list entry S addresses directly below `at' already exists
EmptyList(T, c) == c \in DOMAIN T.ord /\ T.ord[c] = << >>

InsertConflict(T, at, S) ==
    \E c \in S.cont : c # at /\ FrontOf(c) = at /\ c \in T.cont /\ ~EmptyList(T, c)

\* whether a list without entries still "exists" is store specific (DESIGN 4.5): inserting
\* it again may or may not conflict
InsertMayConflict(T, at, S) ==
    \E c \in S.cont : c # at /\ FrontOf(c) = at /\ c \in T.cont /\ EmptyList(T, c)

\* some container, list or list entry S addresses does not exist
UpdateMissing(T, at, S) ==
    \E c \in S.cont : c \notin T.cont

\* what a failed edit may leave behind: everything outside the edited subtree
\* untouched, the tree still well formed
FailedOK(DS, T, at, post) ==
    /\ Outside(post, at) = Outside(T, at)
    /\ WellFormed(DS, post)

ErrClass(k, T, at, S) ==
    IF k = "insert" /\ InsertConflict(T, at, S) THEN "conflict"
    ELSE IF k = "update" /\ UpdateMissing(T, at, S) THEN "notfound"
    ELSE ""

\* class of disagreement ("ok" = the observation is allowed)
EditCheck(DS, uno, T, op, res, post) ==
    LET S == op.s
        want == ErrClass(op.k, T, op.at, S)
    IN IF want # "" THEN
            (IF res.ok THEN
                (IF want = "conflict" THEN "insert-over-existing-succeeded"
                 ELSE "update-of-missing-succeeded")
             ELSE IF res.err # want THEN "wrong-error-class"
             ELSE IF ~FailedOK(DS, T, op.at, post) THEN "failed-edit-damaged-target"
             ELSE "ok")
       ELSE IF ~res.ok /\ op.k = "insert" /\ res.err = "conflict" /\ InsertMayConflict(T, op.at, S) THEN
            (IF FailedOK(DS, T, op.at, post) THEN "ok" ELSE "failed-edit-damaged-target")
       ELSE IF ~res.ok THEN "valid-edit-rejected"
       ELSE IF MergedOK(DS, uno, T, S, post) THEN "ok"
       ELSE IF NormEmpty(post).cont # NormEmpty(MergeCore(DS, T, S)).cont THEN
            (IF \E p \in NormEmpty(MergeCore(DS, T, S)).cont : p \notin post.cont THEN "merge-lost-node"
             ELSE "merge-extra-node")
       ELSE IF \E p \in DOMAIN MergeCore(DS, T, S).leaf : p \notin DOMAIN post.leaf THEN
            (IF \E p \in DOMAIN ReqDefaults(DS, T, S) : p \notin DOMAIN post.leaf
             THEN "default-not-set" ELSE "merge-lost-leaf")
       ELSE IF \E p \in DOMAIN MergeCore(DS, T, S).leaf : post.leaf[p] # MergeCore(DS, T, S).leaf[p]
            THEN "merge-wrong-value"
       ELSE IF \E p \in DOMAIN post.leaf \ DOMAIN MergeCore(DS, T, S).leaf : TRUE THEN
            (IF \E p \in Switched(DS, T, S) : p \in Paths(post) THEN "other-case-not-cleared"
             ELSE "merge-extra-leaf")
       ELSE IF ~OneCase(DS, NormEmpty(post)) THEN "two-cases-hold-data"
       ELSE "merge-wrong-order"

-----------------------------------------------------------------------------
\* Delete / Replace / Set / Clear

Subtree(T, at) == { q \in Paths(T) : Under(at, q) }

CanonDelete(T, at) == Without(T, Subtree(T, at))

\* an emptied list may or may not continue to exist
DeleteOK(uno, T, at, post) ==
    LET want == CanonDelete(T, at)
    IN \/ SameTreeU(uno, post, want)
       \/ /\ IsEntry(at)
          /\ FrontOf(at) \in DOMAIN want.ord /\ want.ord[FrontOf(at)] = << >>
          /\ SameTreeU(uno, post, Without(want, {FrontOf(at)}))

DeleteCheck(uno, T, at, res, post) ==
    IF ~res.ok THEN "delete-rejected"
    ELSE IF DeleteOK(uno, T, at, post) THEN "ok"
    ELSE IF \E q \in Subtree(T, at) : q \in Paths(post) THEN "deleted-node-survives"
    ELSE "delete-removed-too-much"

\* Replace(at, S): the subtree at `at' is exactly S (defaults of created nodes admitted),
\* everything else as before; the order of the other entries of the list is kept but the
\* replaced entry may move to the end (it is deleted and inserted again)
\* a payload that also holds a container / entry beside `at' that the store has already: the insert
\* into the parent meets it and the replace fails (ReplaceFrom = Delete, then InsertFrom on the parent)
WideReplace(T, at, S) ==
    \E q \in S.cont : /\ ~IsPrefixOf(q, at) /\ ~Under(at, q)
                       /\ q \in T.cont /\ Len(q) >= Len(at)

ReplaceCheck(DS, uno, T, at, S, res, post) ==
    IF WideReplace(T, at, S) THEN (IF res.ok THEN "replace-payload-merged-into-sibling" ELSE "ok")
    ELSE IF ~res.ok THEN "replace-rejected"
    ELSE LET base == CanonDelete(T, at)
             unoR == IF IsEntry(at) THEN uno \cup {FrontOf(at)} ELSE uno
         IN IF \E q \in Subtree(T, at) : q \in Paths(post) /\ q \notin Paths(S) /\
                   q \notin DOMAIN OptDefaults(DS, base, S) /\ q \notin DOMAIN ReqDefaults(DS, base, S)
            THEN "old-content-survives-replace"
            ELSE IF MergedOK(DS, unoR, base, S, post) THEN "ok"
            ELSE IF Outside(post, at) # Outside(T, at) THEN "replace-touched-outside"
            ELSE "replace-content-differs"

CanonSet(T, p, v) == [ T EXCEPT !.leaf = Override(T.leaf, [ q \in {p} |-> v ]) ]
CanonClear(T, p) == Without(T, {p})
=============================================================================
