---------------------------- MODULE FcPathModel ----------------------------
(* Exhaustive check of the path-text laws over all key values of length <= 2 *)
(* (every special character in every position), single and compound keys,    *)
(* one and two steps.  The state machine enumerates paths; the invariant is  *)
(* the round trip.  `RawBreaks' documents, on the model, that a renderer     *)
(* that prints keys verbatim does NOT have the property.                     *)
EXTENDS FcPath

Strings2 == { << c >> : c \in Alphabet } \cup { << c, d >> : c, d \in Alphabet }
Names == { << "a" >>, << "b", "1" >> }

VARIABLES path, phase
vars == << path, phase >>

Steps == { [n |-> nm, k |-> << >>] : nm \in Names }
         \cup { [n |-> nm, k |-> << k1 >>] : nm \in Names, k1 \in Strings2 }
         \cup { [n |-> << "a" >>, k |-> << k1, k2 >>] : k1 \in { << c >> : c \in Alphabet }, k2 \in { << c >> : c \in Alphabet } }

Init == path = << >> /\ phase = "build"

AddStep == /\ phase = "build" /\ Len(path) < 2
           /\ \E st \in Steps : path' = Append(path, st)
           /\ UNCHANGED phase

Done == phase = "build" /\ path # << >> /\ phase' = "done" /\ UNCHANGED path

Next == AddStep \/ Done

Spec == Init /\ [][Next]_vars

RoundTrip == ParsePath(RenderPath(path)) = path

TrailingSlash == path # << >> => ParsePath(RenderPath(path) \o << Tok("sep", "/") >>) = path

\* only unreserved characters and separators appear unencoded
StrictlyEncoded == \A i \in DOMAIN RenderPath(path) :
    LET t == RenderPath(path)[i] IN t.t = "ch" => t.c \in Unreserved
=============================================================================
