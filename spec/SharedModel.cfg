SPECIFICATION Spec
CONSTANTS
  G = {1, 2}
  OpsPer = 2
  Access <- Design
INVARIANTS RaceFree AsAlone
CHECK_DEADLOCK FALSE
