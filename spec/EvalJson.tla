------------------------------ MODULE EvalJson ------------------------------
(* Record-mode evaluation of JSON writer output and of exports (C04 C15). *)
EXTENDS FcJson, EditChecks

DSseq == JsonDeserialize(IOEnv.SCHEMA)
DS == TLCEval(IndexDS(DSseq))

\* {"chk":"jsondoc","module":M,"modules":[..],"tree":Tree,"at":Path,"cfg":{"qualify":B,"enumids":B},
\*  "err":"",(error class of the write call) "doc":Doc (compact), "docp":Doc (pretty)}
CheckJsonDoc(r) ==
    IF ~WireOK(r.tree) THEN "harness-wire-duplicates"
    ELSE LET T == TreeOf(r.tree)
             cfg == [qualify |-> r.cfg.qualify, enumids |-> r.cfg.enumids, modules |-> SeqToSet(r.modules),
                     uno |-> UnorderedOf(r.tree)]
         IN IF r.err = "panic" THEN "panic"
            ELSE IF r.err # "" THEN "write-failed"
            ELSE LET c == DocCheck(DS, DSseq, r.module, cfg, T, r.at, r.doc)
                 IN IF c # "ok" THEN c
                    ELSE IF r.docp # r.doc THEN "pretty-changes-content"
                    ELSE "ok"

\* {"chk":"jsonfault","len":n,"failat":k,"err":BOOL,"panic":BOOL}: the stream fails at byte k
CheckJsonFault(r) ==
    IF r.panic THEN "panic"
    ELSE IF r.failat < r.len /\ ~r.err THEN "stream-error-lost"
    ELSE "ok"

Check(r) == CASE r.chk = "jsondoc" -> CheckJsonDoc(r)
              [] r.chk = "jsonfault" -> CheckJsonFault(r)
              [] r.chk = "edit" -> CheckEdit(DS, r)
              [] r.chk = "skip" -> "ok"
              [] OTHER -> "harness-unknown-chk"

ASSUME EvalAll(Check)
=============================================================================
