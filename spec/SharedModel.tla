---------------------------- MODULE SharedModel ------------------------------
(* The schedules of Shared as a state machine: every interleaving of Start / End *)
(* of small programs over every assignment of operation kinds.                   *)
EXTENDS Shared

CONSTANTS G, OpsPer, Access(_)

VARIABLES progs, pc, run, gen, seen, res
vars == << progs, pc, run, gen, seen, res >>

Progs == [ G -> [ 1..OpsPer -> Kinds ] ]

Init == /\ progs \in Progs
        /\ pc = [ g \in G |-> 1 ] /\ run = [ g \in G |-> FALSE ]
        /\ gen = 0 /\ seen = [ g \in G |-> 0 ] /\ res = [ g \in G |-> << >> ]

Start(g) == /\ ~run[g] /\ pc[g] <= OpsPer
            /\ run' = [run EXCEPT ![g] = TRUE]
            /\ seen' = [seen EXCEPT ![g] = gen]
            /\ UNCHANGED << progs, pc, gen, res >>

End(g) == /\ run[g]
          /\ run' = [run EXCEPT ![g] = FALSE]
          /\ pc' = [pc EXCEPT ![g] = @ + 1]
          /\ gen' = IF WritesSchema(Access, progs[g][pc[g]]) THEN gen + 1 ELSE gen
          /\ res' = [res EXCEPT ![g] = Append(@, << progs[g][pc[g]], seen[g] >>)]
          /\ UNCHANGED << progs, seen >>

Next == \E g \in G : Start(g) \/ End(g)
Spec == Init /\ [][Next]_vars

RaceFree == \A g, h \in G :
    (g # h /\ run[g] /\ run[h]) => ~Conflict(Access, progs[g][pc[g]], progs[h][pc[h]])

\* every finished operation saw what it sees alone
AsAlone == \A g \in G : \A k \in DOMAIN res[g] : res[g][k] = << progs[g][k], 0 >>
=============================================================================
