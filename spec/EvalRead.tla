------------------------------ MODULE EvalRead ------------------------------
(* Record-mode evaluation of constrained reads (C07). *)
EXTENDS FcRead, EvalBase

DS == TLCEval(IndexDS(JsonDeserialize(IOEnv.SCHEMA)))

\* {"chk":"read","tree":Tree,"at":Path,"query":text,
\*  "p":{"content":S,"depth":N,"fields":[[names]..],"xfields":[[names]..],"trim":B,
\*       "range":{"on":B,"sel":[names],"lo":N,"hi":N},"maxnode":N,"invalid":B},
\*  "res":{"ok":B,"err":cls},"got":Tree,"post":Tree}
ParamsOf(r) == [content |-> r.p.content, depth |-> r.p.depth,
                fields |-> SeqToSet(r.p.fields), xfields |-> SeqToSet(r.p.xfields),
                trim |-> r.p.trim, range |-> r.p.range, maxnode |-> r.p.maxnode]

CheckRead(r, incl) ==
    IF ~(WireOK(r.tree) /\ WireOK(r.post) /\ WireOK(r.got)) THEN "harness-wire-duplicates"
    ELSE LET T == TreeOf(r.tree) IN
         IF r.res.err = "panic" THEN "panic"
         ELSE IF TreeOf(r.post) # T THEN "read-modified-data"
         ELSE IF r.p.invalid THEN (IF r.res.ok THEN "invalid-parameter-accepted" ELSE "ok")
         ELSE ReadCheck(DS, T, r.at, ParamsOf(r), incl, r.res, TreeOf(r.got))

\* one reading of the range end for the whole trace
IsRead(i) == Trace[i].chk = "read"
AllOK(incl) == \A i \in DOMAIN Trace : IsRead(i) => CheckRead(Trace[i], incl) = "ok"
\* the harness asks the library once per run how it reads the end row and hands the answer in
Incl == IF "INCL" \in DOMAIN IOEnv THEN IOEnv.INCL = "true"
        ELSE IF AllOK(FALSE) THEN FALSE ELSE IF AllOK(TRUE) THEN TRUE ELSE FALSE

Check(r) == CASE r.chk = "read" -> CheckRead(r, Incl)
              [] r.chk = "skip" -> "ok"
              [] OTHER -> "harness-unknown-chk"

ASSUME EvalAll(Check)
=============================================================================
