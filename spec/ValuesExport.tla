---------------------------- MODULE ValuesExport ----------------------------
(* Hands the spec-defined value lines to the harness (single source of truth). *)
EXTENDS Values, Json, IOUtils, SequencesExt
ASSUME JsonSerialize(IOEnv.OUT,
         [ num |-> NumLine, str |-> StrLine, bool |-> BoolLine, enum |-> EnumLine,
           enumval |-> [ i \in DOMAIN EnumLine |-> EnumVal[EnumLine[i]] ],
           frac |-> SetToSeq(Fractional),
           fmts |-> SetToSeq(IntFmts),
           lo |-> Lo, hi |-> Hi ])
=============================================================================
