-------------------------- MODULE YangTypesRefModel ---------------------------
(* The refactoring machine restricted to type refactorings (and the grouping     *)
(* refactorings that move typed leaves), over the typedef seed module sets (C02). *)
EXTENDS YangRefactor, Json, IOUtils

SeedSeq == JsonDeserialize("yangtypeseeds.json")
SeedSet == { SeedSeq[i] : i \in DOMAIN SeedSeq }
FeatureSet == {}

Emit == IF "EMIT" \in DOMAIN IOEnv THEN PrintT(<< "@@MS", ToJson(ms) >>) ELSE TRUE
=============================================================================
