
