SPECIFICATION Spec
INVARIANT NeverCrash
INVARIANT VerdictOK
INVARIANT StoredReadable
