SPECIFICATION Spec
CONSTANTS
  G = {1, 2}
  OpsPer = 1
  Access <- Pinned
INVARIANTS RaceFree AsAlone
CHECK_DEADLOCK FALSE
