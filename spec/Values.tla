------------------------------- MODULE Values -------------------------------
(***************************************************************************)
(* Exact value domains of YANG leaf types (C10, C17, used by C05 and C16). *)
(*                                                                         *)
(* TLC integers are 32 bit and TLC cannot take strings apart, so numbers   *)
(* are *named points on an exact number line*: `NumLine' is a strictly     *)
(* ascending sequence of decimal numerals.  A point is identified by its   *)
(* numeral; all arithmetic the properties need (order, range membership,   *)
(* integrality) is arithmetic on *indices* into the line.  The harness     *)
(* self-checks with math/big that the line is strictly ascending and that  *)
(* `Fractional' is exactly the set of non-integral numerals.               *)
(***************************************************************************)
EXTENDS Integers, Sequences, FiniteSets, TLC

Block(lo, hi) == [i \in 1..(hi - lo + 1) |-> ToString(lo + i - 1)]

NegBig == << "-18446744073709551616", "-9223372036854775809", "-9223372036854775808",
             "-9223372036854775807", "-9007199254740993", "-9007199254740992",
             "-4294967297", "-4294967296", "-4294967295",
             "-2147483649", "-2147483648", "-2147483647", "-2147483646.5",
             "-65537", "-65536", "-65535", "-32769", "-32768", "-32767", "-32766.5" >>

PosBig == << "32766", "32767", "32767.5", "32768", "65534", "65535", "65535.5", "65536",
             "2147483646", "2147483647", "2147483647.5", "2147483648",
             "4294967294", "4294967295", "4294967295.5", "4294967296",
             "9007199254740991", "9007199254740992", "9007199254740993",
             "9223372036854775806", "9223372036854775807", "9223372036854775808",
             "18446744073709551614", "18446744073709551615", "18446744073709551616" >>

NumLine == NegBig \o Block(-130, -129) \o << "-128.5" >> \o Block(-128, -1)
           \o << "-0.5", "0", "0.5", "1", "1.5" >> \o Block(2, 127) \o << "127.5" >>
           \o Block(128, 255) \o << "255.5" >> \o Block(256, 258) \o PosBig

Fractional == { "-2147483646.5", "-32766.5", "-128.5", "-0.5", "0.5", "1.5", "127.5", "255.5",
                "32767.5", "65535.5", "2147483647.5", "4294967295.5" }

\* strings in code-point order (the harness self-checks the order with Go's
\* byte-wise comparison of UTF-8, which coincides with code-point order)
StrLine == << "", " ", "0", "10", "50%", "9", "A", "B", "Z", "a", "a b", "a+b", "aa", "ab", "b", "z",
              "~", "é", "ÿ", "中" >>

BoolLine == << "false", "true" >>

\* an enumeration used for comparisons: points are labels, ascending by VALUE
\* (label order deliberately differs from value order)
EnumLine == << "zeta", "one", "alpha", "big" >>
EnumVal  == [ zeta |-> 0, one |-> 1, alpha |-> 5, big |-> 70000 ]

IntFmts == { "int8", "int16", "int32", "int64", "uint8", "uint16", "uint32", "uint64" }

Lo == [ int8 |-> "-128", int16 |-> "-32768", int32 |-> "-2147483648",
        int64 |-> "-9223372036854775808",
        uint8 |-> "0", uint16 |-> "0", uint32 |-> "0", uint64 |-> "0" ]
Hi == [ int8 |-> "127", int16 |-> "32767", int32 |-> "2147483647",
        int64 |-> "9223372036854775807",
        uint8 |-> "255", uint16 |-> "65535", uint32 |-> "4294967295",
        uint64 |-> "18446744073709551615" ]

SeqRange(s) == { s[i] : i \in DOMAIN s }

IdxIn(line) == [ p \in SeqRange(line) |-> CHOOSE i \in DOMAIN line : line[i] = p ]
\* TLCEval forces TLC to tabulate the function once instead of re-evaluating the
\* CHOOSE at every application (matters for trace evaluation speed only)
NumIdx  == TLCEval(IdxIn(NumLine))
StrIdx  == TLCEval(IdxIn(StrLine))
BoolIdx == TLCEval(IdxIn(BoolLine))
EnumIdx == TLCEval(IdxIn(EnumLine))
NumPts  == TLCEval(SeqRange(NumLine))

Sgn(n) == IF n < 0 THEN -1 ELSE IF n > 0 THEN 1 ELSE 0

\* which line a format's values live on
Dom(fmt) == CASE fmt \in IntFmts \cup {"decimal64"} -> "num"
              [] fmt \in {"string", "identityref"} -> "str"
              [] fmt = "boolean" -> "bool"
              [] fmt = "enumeration" -> "enum"

Idx(fmt, p) == CASE Dom(fmt) = "num"  -> NumIdx[p]
                 [] Dom(fmt) = "str"  -> StrIdx[p]
                 [] Dom(fmt) = "bool" -> BoolIdx[p]
                 [] Dom(fmt) = "enum" -> EnumIdx[p]

Known(fmt, p) == CASE Dom(fmt) = "num"  -> p \in NumPts
                   [] Dom(fmt) = "str"  -> p \in DOMAIN StrIdx
                   [] Dom(fmt) = "bool" -> p \in DOMAIN BoolIdx
                   [] Dom(fmt) = "enum" -> p \in DOMAIN EnumIdx

Integral(p) == p \notin Fractional

InRange(fmt, p) == /\ NumIdx[Lo[fmt]] <= NumIdx[p]
                   /\ NumIdx[p] <= NumIdx[Hi[fmt]]

\* C17: the order of typed values is the order of the points they denote
Cmp(fmt, a, b) == Sgn(Idx(fmt, a) - Idx(fmt, b))

\* C17: key tuples are ordered lexicographically
RECURSIVE LexCmp(_, _, _)
LexCmp(fmts, a, b) ==
    IF fmts = << >> THEN 0
    ELSE LET c == Cmp(Head(fmts), Head(a), Head(b))
         IN IF c # 0 THEN c ELSE LexCmp(Tail(fmts), Tail(a), Tail(b))

\* C10: conversion of a source denoting point p to an integer format
ConvIntOk(fmt, p) == Integral(p) /\ InRange(fmt, p)

-----------------------------------------------------------------------------
(* Laws checked on the model (ASSUME-level theorems over the finite lines) *)

Lines == << NumLine, StrLine, BoolLine, EnumLine >>

\* every line is duplicate free (so Idx is well defined and Cmp = 0 iff equal)
LinesInjective == \A k \in DOMAIN Lines :
    \A i, j \in DOMAIN Lines[k] : Lines[k][i] = Lines[k][j] => i = j

EnumAscending == \A i, j \in DOMAIN EnumLine :
    i < j => EnumVal[EnumLine[i]] < EnumVal[EnumLine[j]]

CmpLaws(fmt, pts) ==
    /\ \A a \in pts : Cmp(fmt, a, a) = 0
    /\ \A a, b \in pts : Cmp(fmt, a, b) = -Cmp(fmt, b, a)
    /\ \A a, b \in pts : (Cmp(fmt, a, b) = 0) <=> (a = b)

Small == { "-129", "-128", "-1", "0", "0.5", "1", "127", "128", "255", "256",
           "9223372036854775807", "18446744073709551615" }

CmpTransitive(fmt, pts) ==
    \A a, b, c \in pts : (Cmp(fmt, a, b) <= 0 /\ Cmp(fmt, b, c) <= 0) => Cmp(fmt, a, c) <= 0

Pairs2 == { <<x, y>> : x \in {"0", "1", "255"}, y \in {"", "a", "b"} }
LexLaws ==
    LET F == << "uint8", "string" >> IN
    /\ \A a, b \in Pairs2 : LexCmp(F, a, b) = -LexCmp(F, b, a)
    /\ \A a, b \in Pairs2 : (LexCmp(F, a, b) = 0) <=> (a = b)
    /\ \A a, b, c \in Pairs2 :
          (LexCmp(F, a, b) < 0 /\ LexCmp(F, b, c) < 0) => LexCmp(F, a, c) < 0
    /\ \A a, b \in Pairs2 : (Cmp("uint8", a[1], b[1]) < 0) => LexCmp(F, a, b) < 0

ConvLaws ==
    /\ \A f \in IntFmts : ConvIntOk(f, Lo[f]) /\ ConvIntOk(f, Hi[f])
    /\ \A f \in IntFmts : NumIdx[Lo[f]] > 1 /\ ~ConvIntOk(f, NumLine[NumIdx[Lo[f]] - 1])
    /\ \A f \in IntFmts : ~ConvIntOk(f, NumLine[NumIdx[Hi[f]] + 1])
    /\ \A f \in IntFmts : \A p \in Fractional : ~ConvIntOk(f, p)

ValuesLaws ==
    /\ LinesInjective
    /\ EnumAscending
    /\ Fractional \subseteq SeqRange(NumLine)
    /\ CmpLaws("int64", SeqRange(NumLine))
    /\ CmpTransitive("int64", Small)
    /\ CmpLaws("string", SeqRange(StrLine))
    /\ CmpTransitive("string", SeqRange(StrLine))
    /\ CmpLaws("enumeration", SeqRange(EnumLine))
    /\ LexLaws
    /\ ConvLaws
=============================================================================
