------------------------------- MODULE Robust --------------------------------
(***************************************************************************)
(* Robustness contract (C13 C14): whatever the request, the library answers  *)
(* with a result or an error; it never crashes, and data stored before a      *)
(* rejected request stays readable.                                           *)
(*                                                                           *)
(* A REQUEST is [kind, shape]: kind names the entry point (load, json-edit,   *)
(* xml-edit, find, query, xpath, setvalue), shape how the input was derived   *)
(* from a valid one: "valid", "truncate", "delete", "dup", "subst", "shape-   *)
(* mismatch", "cycle", "opener-fault", "pathological".  An OUTCOME is         *)
(* "result", "error", or a crash: "panic", "stack-overflow", "fatal",         *)
(* "timeout".  The state machine below is the contract; RobustModel checks    *)
(* that it has no reachable crash state and that StoredReadable is invariant; *)
(* observed requests of the real code are evaluated with Verdict.             *)
(***************************************************************************)
EXTENDS Integers, Sequences, FiniteSets, TLC

Outcomes == {"result", "error"}
Crashes == {"panic", "stack-overflow", "fatal", "timeout", "concurrent-map"}

\* shapes for which the property demands an error, not just "result or error" (C13); a
\* reference cycle in YANG text (C14) only has to terminate
MustFail == {"shape-mismatch"}

\* verdict for one observed request:
\*   out: outcome; walk: a returned module / the stored tree could afterwards be read
\*   completely ("ok"), or reading crashed ("panic"), or nothing to read ("n/a")
Verdict(shape, out, walk) ==
    IF out \in Crashes THEN out
    ELSE IF out \notin Outcomes THEN "harness-unknown-outcome"
    ELSE IF shape \in MustFail /\ out = "result" THEN "invalid-request-accepted"
    ELSE IF walk = "panic" THEN "result-not-readable"
    ELSE IF walk = "changed" THEN "rejected-request-changed-stored-data"
    ELSE "ok"
=============================================================================
