--------------------------- MODULE EditProtoModel ---------------------------
(***************************************************************************)
(* The INTENDED edit protocol as a state machine (one action per editor      *)
(* step), with a fault injected at any callback: begin on the node (for the   *)
(* edit root: then on each ancestor, innermost first), visit its leaves and   *)
(* children depth first, and - deferred - end in the reverse order, also on   *)
(* failure.  TLC explores every tree shape up to the bound, every entry       *)
(* point and every fault position and checks that the monitor of EditProto    *)
(* never reports a violation: the property is implementable as stated, and    *)
(* the monitor does not reject the intended behaviour.                        *)
(* A second configuration (SkipEndOnError = TRUE) shows the monitor does      *)
(* flag an editor that forgets the deferred end.                              *)
(***************************************************************************)
EXTENDS EditProto

CONSTANTS Shapes,        \* set of trees: each a set of node ids (prefix closed, contains << >>)
          SkipEndOnError \* BOOLEAN: model the defect "no end after an error"

AllShapes == { {<< >>}, {<< >>, <<"a">>}, {<< >>, <<"a">>, <<"a", "b">>}, {<< >>, <<"a">>, <<"c">>},
               {<< >>, <<"a">>, <<"a", "b">>, <<"a", "b", "d">>}, {<< >>, <<"a">>, <<"a", "b">>, <<"a", "e">>} }
OneShape == { {<< >>, <<"a">>, <<"a", "b">>} }

VARIABLES tree, root, stack, todo, mon, fault, cnt, phase, err
vars == << tree, root, stack, todo, mon, fault, cnt, phase, err >>

Kids(t, n) == { c \in t : Len(c) = Len(n) + 1 /\ IsPre(n, c) }
Ancestors(n) == { SubSeq(n, 1, i) : i \in 0..(Len(n) - 1) }

\* the next callback succeeds unless it is the one chosen to fail
Ok == cnt + 1 # fault
Ev(cb, n, w) == [cb |-> cb, side |-> "target", n |-> n, write |-> w, ok |-> Ok]

Init == /\ tree \in Shapes /\ root \in tree
        /\ stack = << >> /\ todo = << root >> /\ mon = InitMon
        /\ fault \in 0..12 /\ cnt = 0 /\ phase = "enter" /\ err = FALSE

\* begin on the node on top of todo; for the edit root bubble to the ancestors
BeginNode ==
    /\ phase = "enter" /\ todo # << >> /\ ~err
    /\ LET n == Head(todo) IN
       /\ mon' = Step(root, mon, Ev("begin", n, FALSE))
       /\ cnt' = cnt + 1
       /\ IF Ok THEN /\ stack' = << n >> \o stack
                     /\ todo' = Tail(todo)
                     /\ phase' = IF n = root /\ Ancestors(root) # {} THEN "bubble-begin" ELSE "visit"
                     /\ err' = FALSE
          ELSE /\ err' = TRUE /\ phase' = "unwind" /\ UNCHANGED << stack, todo >>
    /\ UNCHANGED << tree, root, fault >>

\* begin on the ancestors of the edit root, innermost first (they are pushed so that
\* they are ended after the root)
BubbleBegin ==
    /\ phase = "bubble-begin"
    /\ LET pending == { a \in Ancestors(root) : ~InBag(mon.open, a) } IN
       IF pending = {} THEN phase' = "visit" /\ UNCHANGED << mon, cnt, stack, err >>
       ELSE LET a == CHOOSE a \in pending : \A b \in pending : Len(b) <= Len(a) IN
            /\ mon' = Step(root, mon, Ev("begin", a, FALSE))
            /\ cnt' = cnt + 1
            /\ IF Ok THEN stack' = stack \o << a >> /\ err' = FALSE /\ phase' = "bubble-begin"
               ELSE err' = TRUE /\ phase' = "unwind" /\ UNCHANGED stack
    /\ UNCHANGED << tree, root, todo, fault >>

\* one leaf write on the node on top of the stack, then its children
Visit ==
    /\ phase = "visit" /\ stack # << >>
    /\ LET n == Head(stack) IN
       /\ mon' = Step(root, mon, Ev("field", n, TRUE))
       /\ cnt' = cnt + 1
       /\ IF Ok THEN /\ err' = FALSE
                     /\ LET ks == Kids(tree, n) IN
                        IF ks = {} \/ Len(n) < Len(root) THEN phase' = "unwind" /\ todo' = todo
                        ELSE /\ todo' = << CHOOSE k \in ks : TRUE >> \o todo
                             /\ phase' = "enter"
          ELSE err' = TRUE /\ phase' = "unwind" /\ UNCHANGED todo
    /\ UNCHANGED << tree, root, stack, fault >>

\* deferred end of the node on top of the stack
EndNode ==
    /\ phase = "unwind" /\ stack # << >>
    /\ ~(SkipEndOnError /\ err)
    /\ LET n == Head(stack) IN
       /\ mon' = Step(root, mon, Ev("end", n, FALSE))
       /\ cnt' = cnt + 1
       /\ err' = (err \/ ~Ok)
       /\ stack' = Tail(stack)
    /\ UNCHANGED << tree, root, todo, fault, phase >>

Return ==
    /\ phase = "unwind" /\ (stack = << >> \/ (SkipEndOnError /\ err))
    /\ mon' = [mon EXCEPT !.viol = Finish(mon, [err |-> err, wraps |-> TRUE])]
    /\ phase' = "done"
    /\ UNCHANGED << tree, root, stack, todo, fault, cnt, err >>

Next == BeginNode \/ BubbleBegin \/ Visit \/ EndNode \/ Return
Spec == Init /\ [][Next]_vars

NoViolation == mon.viol = {}
ReturnsBalanced == phase = "done" => DOMAIN mon.open = {}
=============================================================================
