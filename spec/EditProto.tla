------------------------------ MODULE EditProto ------------------------------
(***************************************************************************)
(* The callback protocol of an edit or delete as seen by the participating   *)
(* nodes (C12).  An EVENT is one node callback:                               *)
(*   [cb |-> "begin" | "end" | "child" | "next" | "field" | "choose",         *)
(*    side |-> "target" | "source", n |-> node id (data path as a sequence),  *)
(*    write |-> BOOLEAN  (field write / clear, child or list item new or      *)
(*                        delete), ok |-> BOOLEAN (the callback returned nil)]*)
(* followed by the return of the API call [err |-> BOOLEAN, wraps |-> BOOLEAN *)
(* (errors.Is finds the failing callback's error)].                           *)
(*                                                                           *)
(* The MONITOR state is [open, failed, viol]: the BAG of nodes successfully    *)
(* told an edit begins and not yet told it ended (a function node -> count:   *)
(* an edit may run a nested edit of its own - clearing the other case of a    *)
(* choice is a Delete with its own begin / end round through the same         *)
(* ancestors - so a node can be inside two edits at once), whether some       *)
(* callback failed, and the set of violations seen so far.  Step is its       *)
(* transition function; it is exact on what the property fixes and silent on  *)
(* call order otherwise.                                                      *)
(***************************************************************************)
EXTENDS Integers, Sequences, FiniteSets, TLC

IsPre(a, b) == Len(a) <= Len(b) /\ SubSeq(b, 1, Len(a)) = a

EmptyBag == [ n \in {} |-> 0 ]
InBag(b, n) == n \in DOMAIN b
BagAdd(b, n) == IF n \in DOMAIN b THEN [b EXCEPT ![n] = @ + 1]
                ELSE [ m \in DOMAIN b \cup {n} |-> IF m = n THEN 1 ELSE b[m] ]
BagDel(b, n) == IF n \notin DOMAIN b THEN b
                ELSE IF b[n] > 1 THEN [b EXCEPT ![n] = @ - 1]
                ELSE [ m \in DOMAIN b \ {n} |-> b[m] ]

InitMon == [open |-> EmptyBag, failed |-> FALSE, viol |-> {}]

\* root: id of the selection the API call was made on
Step(root, st, e) ==
    LET related == IsPre(root, e.n) \/ IsPre(e.n, root)   \* edited node, or ancestor of the edit root
        v0 == st.viol
    IN CASE e.cb = "begin" ->
              LET v1 == v0 \cup (IF e.side # "target" THEN {"begin-sent-to-source-node"} ELSE {})
                           \cup (IF ~related THEN {"begin-sent-to-unrelated-node"} ELSE {})
              IN [open |-> IF e.ok THEN BagAdd(st.open, e.n) ELSE st.open,
                  failed |-> st.failed \/ ~e.ok, viol |-> v1]
         [] e.cb = "end" ->
              LET v1 == v0 \cup (IF ~InBag(st.open, e.n) THEN {"end-without-successful-begin"} ELSE {})
              IN [open |-> BagDel(st.open, e.n), failed |-> st.failed \/ ~e.ok, viol |-> v1]
         [] OTHER ->
              LET v1 == v0 \cup (IF st.failed /\ e.write /\ e.side = "target" THEN {"write-after-failed-callback"} ELSE {})
              IN [open |-> st.open, failed |-> st.failed \/ ~e.ok, viol |-> v1]

\* the API call returns
Finish(st, ret) ==
    st.viol \cup (IF DOMAIN st.open # {} THEN {"begun-node-never-told-edit-ended"} ELSE {})
            \cup (IF st.failed /\ ~ret.err THEN {"callback-error-swallowed"} ELSE {})
            \cup (IF st.failed /\ ret.err /\ ~ret.wraps THEN {"callback-error-not-wrapped"} ELSE {})

RECURSIVE Run(_, _, _)
Run(root, st, events) ==
    IF events = << >> THEN st ELSE Run(root, Step(root, st, Head(events)), Tail(events))

Verdict(root, events, ret) == Finish(Run(root, InitMon, events), ret)
=============================================================================
