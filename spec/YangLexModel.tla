---------------------------- MODULE YangLexModel ----------------------------
(* Every argument up to MaxLen characters over the alphabet, in every legal style: *)
(* reading the written form back gives the argument.                               *)
EXTENDS YangLex
CONSTANT MaxLen
VARIABLE arg
Init == arg = << >>
Next == Len(arg) < MaxLen /\ \E c \in Alphabet : arg' = Append(arg, c)
Spec == Init /\ [][Next]_arg
RoundTrip == \A st \in Styles : Legal(st, arg) => Unquote(Render(st, arg)) = arg
\* a rendering never contains an unescaped closing quote or a comment opener outside quotes
UnquotedIsOneWord == UnqLegal(arg) => \A i \in DOMAIN arg : arg[i] \notin {"sp", "nl", "tab"}
=============================================================================
