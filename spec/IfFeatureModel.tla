--------------------------- MODULE IfFeatureModel ---------------------------
(***************************************************************************)
(* Every token sequence up to length MaxLen over {a,b,c,and,or,not,(,)} is a  *)
(* state (built token by token); for each, under all 2^3 feature assignments: *)
(*   - parenthesising a well-formed expression keeps it well formed with the  *)
(*     same value; so does double negation                                    *)
(*   - a well-formed expression has balanced parentheses and never two        *)
(*     operands or two binary operators in a row                              *)
(*   - the textbook precedence examples evaluate as RFC 7950 says             *)
(***************************************************************************)
EXTENDS IfFeature

CONSTANT MaxLen
VARIABLE toks
Init == toks = << >>
Next == Len(toks) < MaxLen /\ \E w \in Words : toks' = Append(toks, w)
Spec == Init /\ [][Next]_toks

Assignments == SUBSET Feats

ParenPreserves == WellFormed(toks) =>
    LET p == << "(" >> \o toks \o << ")" >> IN
    WellFormed(p) /\ \A on \in Assignments : Eval(p, on) = Eval(toks, on)

DoubleNegation == WellFormed(toks) /\ (toks[1] \in Feats \cup {"(", "not"}) =>
    LET p == << "not", "not", "(" >> \o toks \o << ")" >> IN
    WellFormed(p) /\ \A on \in Assignments : Eval(p, on) = Eval(toks, on)

Count(w) == Cardinality({ i \in DOMAIN toks : toks[i] = w })
Shape == WellFormed(toks) =>
    /\ Count("(") = Count(")")
    /\ \A i \in 1..(Len(toks) - 1) :
          /\ ~(toks[i] \in Feats /\ toks[i+1] \in Feats \cup {"not", "("})
          /\ ~(toks[i] \in {"and", "or"} /\ toks[i+1] \in {"and", "or", ")"})
    /\ toks[Len(toks)] \in Feats \cup {")"}

Precedence ==
    /\ \A on \in Assignments :
          /\ Eval(<<"a", "or", "b", "and", "c">>, on) = (("a" \in on) \/ (("b" \in on) /\ ("c" \in on)))
          /\ Eval(<<"not", "a", "and", "b">>, on) = ((~("a" \in on)) /\ ("b" \in on))
          /\ Eval(<<"not", "(", "a", "or", "b", ")", "and", "c">>, on) = ((~(("a" \in on) \/ ("b" \in on))) /\ ("c" \in on))
          /\ Eval(<<"a", "and", "b", "or", "c">>, on) = ((("a" \in on) /\ ("b" \in on)) \/ ("c" \in on))
    /\ ~WellFormed(<<"a", "or", "b", ")">>) /\ ~WellFormed(<<"a", "b">>) /\ ~WellFormed(<<"(", "a">>) /\ ~WellFormed(<< >>)
=============================================================================
