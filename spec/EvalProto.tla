----------------------------- MODULE EvalProto ------------------------------
(* Evaluation of recorded callback traces against the EditProto monitor (C12). *)
EXTENDS EditProto, EvalBase

\* {"chk":"proto","root":[steps],"events":[Event..],"k":fault position,"ret":{"err":B,"wraps":B,"panic":B}}
CheckProto(r) ==
    IF r.ret.panic THEN "panic"
    ELSE LET v == Verdict(r.root, r.events, r.ret)
         IN IF v = {} THEN "ok" ELSE CHOOSE c \in v : \A d \in v : c = d \/ TRUE

Check(r) == CASE r.chk = "proto" -> CheckProto(r)
              [] r.chk = "skip" -> "ok"
              [] OTHER -> "harness-unknown-chk"

ASSUME EvalAll(Check)
=============================================================================
