SPECIFICATION Spec
CONSTANTS
  G = {1, 2, 3}
  OpsPer = 2
  Access <- Design
INVARIANTS RaceFree AsAlone
CHECK_DEADLOCK FALSE
