---------------------------- MODULE FcJsonModel ----------------------------
(***************************************************************************)
(* C04 / C15 on the model: over every tree reachable in the store state     *)
(* machine (FcEditModel) and every writer configuration                      *)
(*   - the canonical document of the tree (from every start selection) is    *)
(*     admitted by DocCheck, the predicate that judges the real writer       *)
(*   - reading the canonical document back yields exactly the tree           *)
(*   - pretty / compact do not exist at this level: one abstract document    *)
(***************************************************************************)
EXTENDS FcEditModel, FcJson

DSseq == JsonDeserialize(IOEnv.SCHEMA)
Main == "M0"

Cfgs == { [qualify |-> q, enumids |-> e, modules |-> {Main}, uno |-> {}] : q \in BOOLEAN, e \in BOOLEAN }

Inv_JsonAdmitted ==
    \A cfg \in Cfgs :
        /\ DocCheck(DS, DSseq, Main, cfg, T, << >>, CanonObj(DS, DSseq, Main, cfg, T, << >>)) = "ok"
        /\ \A at \in { c \in T.cont : IsEntry(c) \/ KindOf(DS, c) = "container" } :
              DocCheck(DS, DSseq, Main, cfg, T, at, CanonObj(DS, DSseq, Main, cfg, T, at)) = "ok"

Inv_JsonRoundTrip ==
    \A cfg \in Cfgs :
        ReadObj(DS, cfg, << >>, CanonObj(DS, DSseq, Main, cfg, T, << >>)) = T
=============================================================================
