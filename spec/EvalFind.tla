------------------------------ MODULE EvalFind ------------------------------
(* Record-mode evaluation of Selection.Find (C08; lookups of C17). *)
EXTENDS FcTree, EvalBase

DS == TLCEval(IndexDS(JsonDeserialize(IOEnv.SCHEMA)))

\* {"chk":"find","tree":Tree,"from":Path,"target":Path,"unknown":BOOL,
\*  "res":{"found":B,"err":cls,"sp":[names],"key":[..],"leaves":[{"n":name,"set":B,"v":[..]}],
\*         "back":{"tried":B,"found":B,"sp":[..],"key":[..]}},"post":Tree}
LeafContentOK(T, tgt, lf) ==
    LET q == Append(tgt, [n |-> lf.n, k |-> << >>])
        n == SNode(DS, SPath(q))
    IN IF q \in DOMAIN T.leaf THEN lf.set /\ lf.v = T.leaf[q]
       ELSE ~lf.set \/ (n.dflt # << >> /\ lf.v = n.dflt)   \* unset: nothing, or the schema default

CheckFind(r) ==
    IF ~(WireOK(r.tree) /\ WireOK(r.post)) THEN "harness-wire-duplicates"
    ELSE LET T == TreeOf(r.tree)
             tgt == r.target
             res == r.res
             isLeaf == tgt # << >> /\ HasSNode(DS, SPath(tgt)) /\ KindOf(DS, tgt) \in {"leaf", "leaflist"}
             parentThere == Len(tgt) <= 1 \/ FrontOf(tgt) \in T.cont
             exists == tgt = << >> \/ tgt \in T.cont \/ (isLeaf /\ tgt \in DOMAIN T.leaf)
         IN IF res.err = "panic" THEN "panic"
            ELSE IF TreeOf(r.post) # T THEN "find-modified-data"
            ELSE IF r.unknown THEN
                 (IF res.err = "notfound" THEN "ok"
                  ELSE IF ~parentThere /\ ~res.found /\ res.err = "" THEN "ok"  \* stopped at the absent parent first
                  ELSE "unknown-name-without-not-found-error")
            ELSE IF exists THEN
                 (IF res.err # "" THEN "existing-node-find-error"
                  ELSE IF ~res.found THEN "existing-node-not-found"
                  ELSE IF res.sp # SPath(tgt) THEN "wrong-schema-node-found"
                  ELSE IF IsEntry(tgt) /\ res.key # KeysOfEntry(tgt) THEN "wrong-key-found"
                  ELSE IF ~isLeaf /\ \E i \in DOMAIN res.leaves : ~LeafContentOK(T, tgt, res.leaves[i])
                       THEN "wrong-content-found"
                  ELSE IF res.back.tried /\ ~(res.back.found /\ res.back.sp = SPath(tgt)
                                              /\ (IsEntry(tgt) => res.back.key = KeysOfEntry(tgt)))
                       THEN "path-does-not-render-back"
                  ELSE "ok")
            ELSE IF isLeaf /\ parentThere THEN "ok"      \* an unset leaf of an existing node: not stated
            ELSE IF res.found THEN "absent-node-found"
            ELSE IF res.err # "" THEN "absent-node-find-error"
            ELSE "ok"

Check(r) == CASE r.chk = "find" -> CheckFind(r)
              [] r.chk = "skip" -> "ok"
              [] OTHER -> "harness-unknown-chk"

ASSUME EvalAll(Check)
=============================================================================
