------------------------------- MODULE FcTree -------------------------------
(***************************************************************************)
(* Abstract data trees of the freeconf data layer (C03 C04 C05 C07 C08 C09  *)
(* C15 C16 C18 C19).                                                         *)
(*                                                                           *)
(* A DATA PATH is a sequence of steps [n |-> name, k |-> key tuple].  A       *)
(* container, leaf, leaf-list or list node is one step with k = <<>>; a list  *)
(* entry is the list's path followed by one more step carrying the key tuple  *)
(* (same name).  Choices and cases never appear in data paths.                *)
(*                                                                           *)
(* A TREE is flat:                                                           *)
(*   leaf : [set of paths -> Seq(STRING)]   leaf: one element, leaf-list: n   *)
(*   cont : set of paths of the containers, list nodes and list entries that  *)
(*          exist                                                             *)
(*   ord  : [paths of existing list nodes -> Seq(key tuple)] entry order      *)
(*                                                                           *)
(* The DATA SCHEMA `DS' is a sequence of node records                         *)
(*   [sp    : schema path (names; choices and cases flattened out),           *)
(*    kind  : "container" | "list" | "leaf" | "leaflist",                     *)
(*    keys  : names of the key leaves (lists),                                *)
(*    dflt  : <<>> or the default's value (same form as a leaf value),        *)
(*    cases : chain of [ch, cs, d] -- the node lies in case cs of choice ch,  *)
(*            and the choice is a child of the schema node at depth d         *)
(*            (outermost first),                                              *)
(*    config: BOOLEAN, type: STRING (leaf base type) ]                        *)
(***************************************************************************)
EXTENDS Integers, Sequences, FiniteSets, TLC

SeqToSet(s) == { s[i] : i \in DOMAIN s }

IsPrefixOf(a, b) == Len(a) <= Len(b) /\ SubSeq(b, 1, Len(a)) = a
IsStrictPrefixOf(a, b) == Len(a) < Len(b) /\ SubSeq(b, 1, Len(a)) = a
FrontOf(p) == SubSeq(p, 1, Len(p) - 1)
LastOf(p) == p[Len(p)]

IsEntry(p) == p # << >> /\ LastOf(p).k # << >>

\* schema path of a data path: entry steps dropped
RECURSIVE SPath(_)
SPath(p) == IF p = << >> THEN << >>
            ELSE IF LastOf(p).k # << >> THEN SPath(FrontOf(p))
            ELSE Append(SPath(FrontOf(p)), LastOf(p).n)

\* number of schema levels of a data path
SDepth(p) == Len(SPath(p))

-----------------------------------------------------------------------------
\* trees: conversion from the JSON wire form
\*   [leaf |-> <<[p |-> path, v |-> value], ...>>, cont |-> <<path, ...>>,
\*    ord |-> <<[p |-> path, keys |-> <<key tuple, ...>>], ...>>]

TreeOf(j) ==
    [ leaf |-> [ p \in { j.leaf[i].p : i \in DOMAIN j.leaf } |->
                   j.leaf[CHOOSE i \in DOMAIN j.leaf : j.leaf[i].p = p].v ],
      cont |-> { j.cont[i] : i \in DOMAIN j.cont },
      ord  |-> [ p \in { j.ord[i].p : i \in DOMAIN j.ord } |->
                   j.ord[CHOOSE i \in DOMAIN j.ord : j.ord[i].p = p].keys ] ]

\* the wire form is itself duplicate free
WireOK(j) ==
    /\ \A a, b \in DOMAIN j.leaf : j.leaf[a].p = j.leaf[b].p => a = b
    /\ \A a, b \in DOMAIN j.cont : j.cont[a] = j.cont[b] => a = b
    /\ \A a, b \in DOMAIN j.ord : j.ord[a].p = j.ord[b].p => a = b

EmptyTree == [ leaf |-> << >>, cont |-> {}, ord |-> << >> ]
\* (<< >> is the function with empty domain)

Paths(T) == DOMAIN T.leaf \cup T.cont

-----------------------------------------------------------------------------
\* schema access.  `DS' (a parameter of every operator that needs it) is the INDEXED
\* schema built once by IndexDS from the sequence of node records:
\*   [node : schema path -> node record, kids : schema path -> set of child records]

IndexDS(seq) ==
    LET nodes == SeqToSet(seq)
        sps == { n.sp : n \in nodes } \cup { << >> }
    IN [ node |-> [ sp \in { n.sp : n \in nodes } |-> CHOOSE n \in nodes : n.sp = sp ],
         kids |-> [ sp \in sps |-> { n \in nodes : Len(n.sp) = Len(sp) + 1 /\ IsPrefixOf(sp, n.sp) } ] ]

SNodes(DS) == { DS.node[sp] : sp \in DOMAIN DS.node }
HasSNode(DS, sp) == sp \in DOMAIN DS.node
SNode(DS, sp) == DS.node[sp]
SChildren(DS, sp) == DS.kids[sp]

KindOf(DS, p) == SNode(DS, SPath(p)).kind

\* the data-path prefix of p that holds the children of schema depth d
\* (the LONGEST prefix with that schema depth: an entry, not its list node)
AnchorAt(p, d) ==
    LET cand == { i \in 0..Len(p) : SDepth(SubSeq(p, 1, i)) = d }
        m == CHOOSE i \in cand : \A j \in cand : j <= i
    IN SubSeq(p, 1, m)

\* the node at path t lies in a different case of a choice than the node at s,
\* for the same instance of that choice
CaseConflict(DS, t, s) ==
    LET ct == SNode(DS, SPath(t)).cases
        cs == SNode(DS, SPath(s)).cases
    IN \E i \in DOMAIN ct : \E j \in DOMAIN cs :
          /\ ct[i].ch = cs[j].ch
          /\ ct[i].cs # cs[j].cs
          /\ ct[i].d < Len(t) + 1 /\ cs[j].d < Len(s) + 1
          /\ AnchorAt(t, ct[i].d) = AnchorAt(s, cs[j].d)

-----------------------------------------------------------------------------
\* well-formedness of a tree against the schema

KeysOfEntry(p) == LastOf(p).k

ParentExists(T, p) == Len(p) <= 1 \/ FrontOf(p) \in T.cont

KeysUnique(T) ==
    \A l \in DOMAIN T.ord :
        \A i, j \in DOMAIN T.ord[l] : T.ord[l][i] = T.ord[l][j] => i = j

\* entries in cont are exactly the keys listed in ord, for existing lists
OrdMatches(DS, T) ==
    /\ DOMAIN T.ord = { p \in T.cont : ~IsEntry(p) /\ KindOf(DS, p) = "list" }
    /\ \A l \in DOMAIN T.ord :
          { KeysOfEntry(e) : e \in { e \in T.cont : IsEntry(e) /\ FrontOf(e) = l } }
             = SeqToSet(T.ord[l])

\* each entry's key leaves hold its key
KeyLeavesMatch(DS, T) ==
    \A e \in T.cont : IsEntry(e) =>
        LET ks == SNode(DS, SPath(e)).keys
        IN /\ Len(KeysOfEntry(e)) = Len(ks)
           /\ \A i \in DOMAIN ks :
              LET kp == Append(e, [n |-> ks[i], k |-> << >>])
              IN kp \in DOMAIN T.leaf /\ T.leaf[kp] = << KeysOfEntry(e)[i] >>

OneCase(DS, T) ==
    \A a, b \in Paths(T) : ~CaseConflict(DS, a, b)

Conforms(DS, T) ==
    /\ \A p \in Paths(T) : p # << >> /\ HasSNode(DS, SPath(p))
    /\ \A p \in T.cont : IF IsEntry(p) THEN KindOf(DS, p) = "list" /\ FrontOf(p) \in T.cont
                         ELSE KindOf(DS, p) \in {"container", "list"}
    /\ \A p \in DOMAIN T.leaf : ~IsEntry(p) /\ KindOf(DS, p) \in {"leaf", "leaflist"}
    /\ \A p \in DOMAIN T.leaf : KindOf(DS, p) = "leaf" => Len(T.leaf[p]) = 1
    \* children of a list node are its entries only
    /\ \A p \in Paths(T) : Len(p) > 1 /\ ~IsEntry(p) =>
          (FrontOf(p) \in T.cont /\ (KindOf(DS, FrontOf(p)) = "list" => IsEntry(FrontOf(p))))
    /\ \A p \in T.cont : IsEntry(p) => LastOf(p).n = LastOf(FrontOf(p)).n

WellFormed(DS, T) ==
    /\ Conforms(DS, T)
    /\ OrdMatches(DS, T)
    /\ KeysUnique(T)
    /\ KeyLeavesMatch(DS, T)
    /\ OneCase(DS, T)

-----------------------------------------------------------------------------
\* restriction / subtree

Under(at, p) == IsPrefixOf(at, p)

\* remove a set of paths (closed under descendants by the caller)
Without(T, gone) ==
    [ leaf |-> [ p \in DOMAIN T.leaf \ gone |-> T.leaf[p] ],
      cont |-> T.cont \ gone,
      ord  |-> [ l \in DOMAIN T.ord \ gone |->
                   SelectSeq(T.ord[l], LAMBDA k : Append(l, [n |-> LastOf(l).n, k |-> k]) \notin gone) ] ]

SubtreeAt(T, at) ==
    [ leaf |-> [ p \in { q \in DOMAIN T.leaf : Under(at, q) } |-> T.leaf[p] ],
      cont |-> { q \in T.cont : Under(at, q) },
      ord  |-> [ l \in { q \in DOMAIN T.ord : Under(at, q) } |-> T.ord[l] ] ]

Outside(T, at) == Without(T, { q \in Paths(T) : Under(at, q) })

\* same tree, list entry order ignored (map-backed stores)
SameUnordered(A, B) ==
    /\ A.leaf = B.leaf
    /\ A.cont = B.cont
    /\ DOMAIN A.ord = DOMAIN B.ord
    /\ \A l \in DOMAIN A.ord : SeqToSet(A.ord[l]) = SeqToSet(B.ord[l]) /\ Len(A.ord[l]) = Len(B.ord[l])

SameTree(ordered, A, B) == IF ordered THEN A = B ELSE SameUnordered(A, B)

\* same tree; entry order compared only for lists outside `uno'
SameTreeU(uno, A, B) ==
    /\ SameUnordered(A, B)
    /\ \A l \in DOMAIN A.ord \ uno : A.ord[l] = B.ord[l]

\* list paths of a wire tree that are flagged unordered
UnorderedOf(j) == { j.ord[i].p : i \in { i \in DOMAIN j.ord : j.ord[i].u } }
=============================================================================
