---------------------------- MODULE SharedExport -----------------------------
(* Hands the harness every schedule (interleaving of start / end events) of the *)
(* program shapes it replays into the real library.                             *)
EXTENDS Shared, Json, IOUtils, SequencesExt

Events(g, n) == [ i \in 1..(2 * n) |-> [g |-> g, e |-> IF i % 2 = 1 THEN "start" ELSE "end"] ]

RECURSIVE Shuffles(_)
Shuffles(seqs) ==
    IF \A g \in DOMAIN seqs : seqs[g] = << >> THEN { << >> }
    ELSE UNION { { << Head(seqs[g]) >> \o rest : rest \in Shuffles([seqs EXCEPT ![g] = Tail(@)]) }
                 : g \in { g \in DOMAIN seqs : seqs[g] # << >> } }

Shape(ng, n) == [ g \in 1..ng |-> Events(g, n) ]

Schedules == [ s2x1 |-> SetToSeq(Shuffles(Shape(2, 1))),
               s2x2 |-> SetToSeq(Shuffles(Shape(2, 2))),
               s3x1 |-> SetToSeq(Shuffles(Shape(3, 1))),
               s4x1 |-> SetToSeq(Shuffles(Shape(4, 1))) ]

ASSUME JsonSerialize(IOEnv.OUT, Schedules)
=============================================================================
