SPECIFICATION Spec
CONSTANT Keys = {"0", "1", "127", "128", "255"}
INVARIANT KeysUnique
INVARIANT LookupCorrect
