---------------------------- MODULE EvalIfFeature ----------------------------
(* Record-mode evaluation of if-feature outcomes and deviations (C11). *)
EXTENDS IfFeature, EvalBase

\* {"chk":"iff","toks":[..],"on":[enabled features],"stmt":kind,"cfg":how the set was given,
\*  "res":{"panic":B,"err":B,"present":B}}
CheckIff(r) ==
    LET on == { r.on[i] : i \in DOMAIN r.on } IN
    IF r.res.panic THEN "panic"
    ELSE IF ~WellFormed(r.toks) THEN
         (IF r.res.err THEN "ok" ELSE "malformed-expression-accepted")
    ELSE IF r.res.err THEN "well-formed-expression-rejected"
    ELSE IF r.res.present # Eval(r.toks, on) THEN
         (IF r.res.present THEN "present-though-expression-false" ELSE "absent-though-expression-true")
    ELSE "ok"

\* {"chk":"dev","kind":"add"|"replace"|"delete"|"not-supported","prop":P,"multi":B (must / unique: several
\*   values may coexist),"had":B (the target states the property),"same":B (delete: the value given
\*   equals the target's),"old":S,"new":S (values rendered as text),
\*  "res":{"panic":B,"err":B},"got":S (the property after loading; "<absent>" if the target is gone),
\*  "others_same":B (every other property of the target and every sibling as without the deviation)}
\* RFC 7950 7.20.3.2
DevLegal(r) ==
    CASE r.kind = "not-supported" -> TRUE
      [] r.kind = "add" -> r.multi \/ ~r.had
      [] r.kind = "replace" -> r.had /\ ~r.multi      \* must and unique cannot be replaced, only added / deleted
      [] r.kind = "delete" -> r.had /\ r.same
DevWant(r) ==
    CASE r.kind = "not-supported" -> "<absent>"
      [] r.kind = "add" -> IF r.multi /\ r.had THEN r.old \o "|" \o r.new ELSE r.new
      [] r.kind = "replace" -> r.new
      [] r.kind = "delete" -> ""
CheckDev(r) ==
    IF r.res.panic THEN "panic"
    ELSE IF ~DevLegal(r) THEN (IF r.res.err THEN "ok" ELSE "illegal-deviation-accepted")
    ELSE IF r.res.err THEN "legal-deviation-rejected"
    ELSE IF r.got # DevWant(r) THEN "deviated-property-wrong"
    ELSE IF ~r.others_same THEN "deviation-changed-something-else"
    ELSE "ok"

Check(r) == CASE r.chk = "iff" -> CheckIff(r)
              [] r.chk = "dev" -> CheckDev(r)
              [] r.chk = "skip" -> "ok"
              [] OTHER -> "harness-unknown-chk"

ASSUME EvalAll(Check)
=============================================================================
