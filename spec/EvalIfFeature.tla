---------------------------- MODULE EvalIfFeature ----------------------------
(* Record-mode evaluation of if-feature outcomes and deviations (C11). *)
EXTENDS IfFeature, EvalBase

\* {"chk":"iff","toks":[..],"on":[enabled features],"stmt":kind,"cfg":how the set was given,
\*  "res":{"panic":B,"err":B,"present":B}}
CheckIff(r) ==
    LET on == { r.on[i] : i \in DOMAIN r.on } IN
    IF r.res.panic THEN "panic"
    ELSE IF ~WellFormed(r.toks) THEN
         (IF r.res.err THEN "ok" ELSE "malformed-expression-accepted")
    ELSE IF r.res.err THEN "well-formed-expression-rejected"
    ELSE IF r.res.present # Eval(r.toks, on) THEN
         (IF r.res.present THEN "present-though-expression-false" ELSE "absent-though-expression-true")
    ELSE "ok"

\* {"chk":"dev","kind":"add"|"replace"|"delete"|"not-supported","prop":P,"multi":B (must / unique: several
\*   values may coexist),"had":B (the target states the property),"same":B (delete: the value given
\*   equals the target's),"old":S,"new":S (values rendered as text),
\*  "res":{"panic":B,"err":B},"got":S (the property after loading; "<absent>" if the target is gone),
\*  "others_same":B (every other property of the target and every sibling as without the deviation)}
\* RFC 7950 7.20.3.2
DevLegal(r) ==
    CASE r.kind = "not-supported" -> TRUE
      [] r.kind = "add" -> r.multi \/ ~r.had
      [] r.kind = "replace" -> r.had /\ ~r.multi      \* must and unique cannot be replaced, only added / deleted
      [] r.kind = "delete" -> r.had /\ r.same
DevWant(r) ==
    CASE r.kind = "not-supported" -> "<absent>"
      [] r.kind = "add" -> IF r.multi /\ r.had THEN r.old \o "|" \o r.new ELSE r.new
      [] r.kind = "replace" -> r.new
      [] r.kind = "delete" -> ""
CheckDev(r) ==
    IF r.res.panic THEN "panic"
    ELSE IF ~DevLegal(r) THEN (IF r.res.err THEN "ok" ELSE "illegal-deviation-accepted")
    ELSE IF r.res.err THEN "legal-deviation-rejected"
    ELSE IF r.got # DevWant(r) THEN "deviated-property-wrong"
    ELSE IF ~r.others_same THEN "deviation-changed-something-else"
    ELSE "ok"

\* {"chk":"devm","kind":"add"|"delete","prop":"must"|"unique","have":[values of the target, in order],
\*  "vals":[values named by the one deviate block],"res":{..},"got":[values after loading, in order]}
\* add: the values are added after the target's own (a value the target has already may not be added
\* again: RFC 7950 7.20.3.2 "properties to add ... must not exist"); delete: every value must exist,
\* the others stay in order
SeqSet(s) == { s[i] : i \in DOMAIN s }
CheckDevMulti(r) ==
    LET H == SeqSet(r.have)  V == SeqSet(r.vals)
        legal == IF r.kind = "delete" THEN V \subseteq H ELSE V \cap H = {}
        want == IF r.kind = "delete" THEN SelectSeq(r.have, LAMBDA v : v \notin V) ELSE r.have \o r.vals
    IN IF r.res.panic THEN "panic"
       ELSE IF ~legal THEN (IF r.res.err \/ r.kind = "add" THEN "ok" ELSE "illegal-deviation-accepted")
       ELSE IF r.res.err THEN "legal-deviation-rejected"
       ELSE IF r.got # want THEN "deviated-property-wrong"
       ELSE "ok"

Check(r) == CASE r.chk = "iff" -> CheckIff(r)
              [] r.chk = "dev" -> CheckDev(r)
              [] r.chk = "devm" -> CheckDevMulti(r)
              [] r.chk = "skip" -> "ok"
              [] OTHER -> "harness-unknown-chk"

ASSUME EvalAll(Check)
=============================================================================
