------------------------------ MODULE EvalCond ------------------------------
(* Record-mode evaluation of when / where / filter (C16). *)
EXTENDS FcWhen, EvalBase

DS == TLCEval(IndexDS(JsonDeserialize(IOEnv.SCHEMA)))

\* {"chk":"whenread","tree":Tree,"res":{ok,err},"got":Tree,"post":Tree}
CheckWhenRead(r) ==
    IF ~(WireOK(r.tree) /\ WireOK(r.got)) THEN "harness-wire-duplicates"
    ELSE IF r.res.err = "panic" THEN "panic"
    ELSE IF TreeOf(r.post) # TreeOf(r.tree) THEN "read-modified-data"
    ELSE WhenReadCheck(DS, TreeOf(r.tree), r.res, TreeOf(r.got))

\* {"chk":"whenedit","pre":Tree,"at":Path (parent),"leaf":Path,"v":[..],"res":{ok,err},"post":Tree}
\* a single leaf written through an edit source: stored iff the leaf is visible in pre
CheckWhenEdit(r) ==
    LET T == TreeOf(r.pre)  post == TreeOf(r.post) IN
    IF r.res.err = "panic" THEN "panic"
    ELSE IF Visible(DS, T, r.leaf) THEN
         (IF ~r.res.ok THEN "visible-leaf-write-rejected"
          ELSE IF r.leaf \in DOMAIN post.leaf /\ post.leaf[r.leaf] = r.v THEN "ok"
          ELSE "visible-leaf-not-written")
    ELSE IF r.leaf \in DOMAIN post.leaf /\ ~(r.leaf \in DOMAIN T.leaf /\ T.leaf[r.leaf] = post.leaf[r.leaf])
         THEN "hidden-leaf-written"
    ELSE "ok"

\* {"chk":"where","tree":Tree,"list":Path,"cond":{on,path,op,lit},"res":{ok,err},"got":[keys],"ordered":B}
CheckWhere(r) ==
    LET T == TreeOf(r.tree)
        want == SelectSeq(T.ord[r.list], LAMBDA k :
                    HoldsAt(DS, T, Append(r.list, [n |-> LastOf(r.list).n, k |-> k]), r.cond.path, r.cond))
    IN IF r.res.err = "panic" THEN "panic"
       ELSE IF ~r.res.ok THEN "where-read-failed"
       ELSE IF r.ordered /\ r.got = want THEN "ok"
       ELSE IF ~r.ordered /\ SeqToSet(r.got) = SeqToSet(want) /\ Len(r.got) = Len(want) THEN "ok"
       ELSE IF \E k \in SeqToSet(r.got) : k \notin SeqToSet(want) THEN "where-kept-non-matching-entry"
       ELSE IF \E k \in SeqToSet(want) : k \notin SeqToSet(r.got) THEN "where-dropped-matching-entry"
       ELSE "where-order-or-duplicates"

\* {"chk":"filter","events":[Tree (leaves below <<evt>>)],"cond":..,"res":{ok,err},"delivered":[1-based indices]}
CheckFilter(r) ==
    LET holds(i) == HoldsAt(DS, TreeOf(r.events[i]), << [n |-> "evt", k |-> << >>] >>, r.cond.path, r.cond)
        want == SelectSeq([ i \in DOMAIN r.events |-> i ], holds)
    IN IF r.res.err = "panic" THEN "panic"
       ELSE IF ~r.res.ok THEN "subscribe-failed"
       ELSE IF r.delivered = want THEN "ok"
       ELSE IF \E i \in SeqToSet(r.delivered) : i \notin SeqToSet(want) THEN "filter-delivered-excluded-event"
       ELSE IF \E i \in SeqToSet(want) : i \notin SeqToSet(r.delivered) THEN "filter-dropped-matching-event"
       ELSE "filter-order-or-duplicates"

Check(r) == CASE r.chk = "whenread" -> CheckWhenRead(r)
              [] r.chk = "whenedit" -> CheckWhenEdit(r)
              [] r.chk = "where" -> CheckWhere(r)
              [] r.chk = "filter" -> CheckFilter(r)
              [] r.chk = "skip" -> "ok"
              [] OTHER -> "harness-unknown-chk"

ASSUME EvalAll(Check)
=============================================================================
