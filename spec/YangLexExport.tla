---------------------------- MODULE YangLexExport ----------------------------
(* Hands the harness every (argument, style, written text) triple the specification *)
(* defines for arguments of up to 2 characters plus a few longer ones.              *)
EXTENDS YangLex, Json, IOUtils, SequencesExt

Args1 == { << c >> : c \in Alphabet }
Args2 == { << c, d >> : c, d \in Alphabet }
Longer == { <<"a", "sp", "dq", "1", "dq">>, <<"bs", "n", "bs", "bs", "t">>, <<"a", "nl", "sp", "sp", "1">>,
            <<"/", "/", "a", "sp", "/", "*", "1", "*", "/">>, <<"sq", "a", "sq", "+", "dq">>,
            <<"a", "sp", "+", "sp", "1">>, <<"{", "a", ";", "}", "e'">>, <<"e'", "e'", "sp", "e'">> }
Args == Args1 \cup Args2 \cup Longer \cup { << >> }

Triples == { [arg |-> a, style |-> st, text |-> Render(st, a)] : a \in Args, st \in Styles }
Legals == { t \in Triples : Legal(t.style, t.arg) }

ASSUME JsonSerialize(IOEnv.OUT, SetToSeq(Legals))
=============================================================================
