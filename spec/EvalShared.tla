----------------------------- MODULE EvalShared ------------------------------
(* Record-mode evaluation of concurrent runs (C20). *)
EXTENDS Shared, EvalBase

\* {"chk":"shared","progs":[[kind,...],...],"sched":[{g,e},...],"nraces":N,"same":[bool,...],"crash":""}
Check(r) == CASE r.chk = "shared" -> Verdict(r.progs, r.sched, r.nraces, r.same, r.crash)
              [] r.chk = "crash" -> r.crash
              [] OTHER -> "harness-unknown-chk"

ASSUME EvalAll(Check)
=============================================================================
