---------------------------- MODULE FcEditModel ----------------------------
(***************************************************************************)
(* The data store as a state machine: the state is one abstract tree, every *)
(* public edit entry point is one action.  TLC explores every tree          *)
(* reachable from the empty store by the operation alphabet `Ops' (all      *)
(* source trees up to a size bound at every entry point, all strategies,    *)
(* delete, replace) and checks                                               *)
(*   - WellFormed in every state: KeysUnique, OneCase, key leaves = key,     *)
(*     order list = entries (C03 C09 C18)                                    *)
(*   - on every transition: the canonical outcome is admitted by the         *)
(*     outcome predicate that judges the real code (EditCheck = "ok"),       *)
(*     upsert is idempotent, a successful update creates no node, a          *)
(*     successful insert only creates nodes, nothing outside the edited      *)
(*     selection changes (frame), delete removes exactly the subtree,        *)
(*     replace leaves exactly the source.                                    *)
(* The alphabet and the schema are JSON constants written by the harness     *)
(* (the same schema file is used to judge the implementation).               *)
(***************************************************************************)
EXTENDS FcEdit, Json, IOUtils

DS  == TLCEval(IndexDS(JsonDeserialize(IOEnv.SCHEMA)))
Ops == LET raw == JsonDeserialize(IOEnv.OPS)
       IN { [k |-> raw[i].k, at |-> raw[i].at, s |-> TreeOf(raw[i].s)] : i \in DOMAIN raw }

VARIABLES T, last
vars == << T, last >>

Init == T = EmptyTree /\ last = "init"

Exists(at) == at = << >> \/ at \in T.cont

OkRes == [ok |-> TRUE, err |-> ""]

DoEdit(op) ==
    /\ op.k \in {"upsert", "insert", "update"}
    /\ Exists(op.at)
    /\ LET e == ErrClass(op.k, T, op.at, op.s)
           new == CanonUpsert(DS, T, op.s)
       IN IF e # "" THEN
              /\ Assert(EditCheck(DS, {}, T, op, [ok |-> FALSE, err |-> e], T) = "ok",
                        <<"failed edit leaving the target untouched must be admitted", op>>)
              /\ UNCHANGED T /\ last' = e
          ELSE
              /\ Assert(EditCheck(DS, {}, T, op, OkRes, new) = "ok",
                        <<"canonical outcome not admitted by the outcome predicate", op>>)
              /\ Assert(CanonUpsert(DS, new, op.s) = new, <<"upsert not idempotent", op>>)
              /\ Assert(Outside(new, op.at) = Outside(T, op.at), <<"frame violated", op>>)
              /\ Assert(op.k = "update" => new.cont \subseteq T.cont, <<"update created a node", op>>)
              /\ Assert(op.k = "insert" => T.cont \subseteq new.cont \/ Switched(DS, T, op.s) # {},
                        <<"insert removed a node", op>>)
              /\ T' = new /\ last' = op.k

DoDelete(op) ==
    /\ op.k = "delete"
    /\ op.at # << >> /\ op.at \in T.cont
    /\ LET new == CanonDelete(T, op.at)
       IN /\ Assert(DeleteCheck({}, T, op.at, OkRes, new) = "ok", <<"canonical delete not admitted", op>>)
          /\ Assert(Outside(new, op.at) = Outside(new, op.at), "x")
          /\ Assert(\A q \in Paths(T) : ~Under(op.at, q) => q \in Paths(new), <<"delete removed a sibling", op>>)
          /\ T' = new /\ last' = "delete"

DoReplace(op) ==
    /\ op.k = "replace"
    /\ op.at # << >> /\ op.at \in T.cont
    /\ LET new == CanonUpsert(DS, CanonDelete(T, op.at), op.s)
       IN /\ Assert(ReplaceCheck(DS, {}, T, op.at, op.s, OkRes, new) = "ok", <<"canonical replace not admitted", op>>)
          /\ Assert(\A q \in Paths(new) : Under(op.at, q) =>
                      (q \in Paths(op.s) \/ q \in DOMAIN ReqDefaults(DS, CanonDelete(T, op.at), op.s)
                         \/ q \in DOMAIN OptDefaults(DS, CanonDelete(T, op.at), op.s)),
                    <<"old content survives replace", op>>)
          /\ T' = new /\ last' = "replace"

Next == \E op \in Ops : DoEdit(op) \/ DoDelete(op) \/ DoReplace(op)

Spec == Init /\ [][Next]_vars

View == T

Inv_WellFormed == WellFormed(DS, T)
Inv_KeysUnique == KeysUnique(T)
Inv_OneCase == OneCase(DS, T)
=============================================================================
