------------------------------- MODULE FcPath -------------------------------
(***************************************************************************)
(* RESTCONF-style path text (C08).  TLC cannot take strings apart, so a text *)
(* is a sequence of TOKENS: [t |-> "ch", c |-> character] for a literal       *)
(* character, [t |-> "pct", c |-> character] for its percent-encoded form,   *)
(* and the separators "/", "=", "," as [t |-> "sep", c |-> ...].  A key      *)
(* value is a sequence of characters over an alphabet that contains every     *)
(* character with a meaning in the syntax.                                    *)
(*                                                                           *)
(* Render is strict: every character outside the unreserved set is            *)
(* percent-encoded.  Parse splits at separators first and decodes afterwards  *)
(* (RFC 8040 3.5.3).  Law (checked on the model): Parse(Render(p)) = p.       *)
(***************************************************************************)
EXTENDS Integers, Sequences, FiniteSets, TLC

Unreserved == { "a", "b", "1", "-", ".", "_", "~" }
Special    == { "/", ",", "=", "%", " ", "+", "?", "#", "e'" }   \* e' stands for a non-ASCII letter
Alphabet   == Unreserved \cup Special

Tok(t, c) == [t |-> t, c |-> c]

RenderChars(s) == [ i \in DOMAIN s |-> IF s[i] \in Unreserved THEN Tok("ch", s[i]) ELSE Tok("pct", s[i]) ]

RECURSIVE JoinWith(_, _)
JoinWith(seqs, sep) ==
    IF seqs = << >> THEN << >>
    ELSE IF Len(seqs) = 1 THEN seqs[1]
    ELSE seqs[1] \o << sep >> \o JoinWith(Tail(seqs), sep)

\* a step is [n |-> name (sequence of unreserved characters), k |-> sequence of key values]
RenderStep(st) ==
    RenderChars(st.n) \o
      (IF st.k = << >> THEN << >>
       ELSE << Tok("sep", "=") >> \o JoinWith([ i \in DOMAIN st.k |-> RenderChars(st.k[i]) ], Tok("sep", ",")))

RenderPath(p) == JoinWith([ i \in DOMAIN p |-> RenderStep(p[i]) ], Tok("sep", "/"))

\* split a token sequence at a separator
RECURSIVE SplitAt(_, _)
SplitAt(toks, sep) ==
    IF \E i \in DOMAIN toks : toks[i] = sep
    THEN LET i == CHOOSE i \in DOMAIN toks : toks[i] = sep /\ \A j \in 1..(i-1) : toks[j] # sep
         IN << SubSeq(toks, 1, i - 1) >> \o SplitAt(SubSeq(toks, i + 1, Len(toks)), sep)
    ELSE << toks >>

Decode(toks) == [ i \in DOMAIN toks |-> toks[i].c ]

ParseStep(toks) ==
    LET parts == SplitAt(toks, Tok("sep", "="))
    IN IF Len(parts) = 1 THEN [n |-> Decode(parts[1]), k |-> << >>]
       ELSE LET keys == SplitAt(parts[2], Tok("sep", ","))
            IN [n |-> Decode(parts[1]), k |-> [ i \in DOMAIN keys |-> Decode(keys[i]) ]]

ParsePath(toks) ==
    LET segs == SplitAt(toks, Tok("sep", "/"))
        nonEmpty == SelectSeq(segs, LAMBDA s : s # << >>)   \* "a/b/" = "a/b"
    IN [ i \in DOMAIN nonEmpty |-> ParseStep(nonEmpty[i]) ]

\* a renderer that does NOT encode (what printing a key verbatim amounts to)
RenderCharsRaw(s) == [ i \in DOMAIN s |-> IF s[i] \in {"/", ",", "="} THEN Tok("sep", s[i]) ELSE Tok("ch", s[i]) ]
=============================================================================
