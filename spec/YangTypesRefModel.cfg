SPECIFICATION SpecTypes
CONSTANTS
  Seeds <- SeedSet
  Features <- FeatureSet
  MaxSteps = 2
INVARIANTS MeaningPreserved Emit
CHECK_DEADLOCK FALSE
