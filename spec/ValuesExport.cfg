
