SPECIFICATION Spec
CONSTANTS
  G = {1, 2}
  OpsPer = 2
  Access <- LazyCache
INVARIANTS RaceFree AsAlone
CHECK_DEADLOCK FALSE
