------------------------------- MODULE FcXml --------------------------------
(***************************************************************************)
(* The XML rendering of a data tree (C19; RFC 7950 XML encoding rules).      *)
(* An ELEMENT is [n |-> local name, ns |-> resolved namespace, t |-> text,    *)
(* k |-> <<child elements>>]; the harness obtains it from the writer's bytes  *)
(* with the standard library's decoder (namespaces resolved, whitespace-only  *)
(* text between child elements dropped); [n |-> "#invalid", ...] when the     *)
(* bytes are not one well-formed document with a single root element.         *)
(*                                                                            *)
(* Rendering of the node at data path p: a leaf is one element holding the    *)
(* lexical value as text; a leaf-list one element per value, in order; a      *)
(* container one element holding its children in schema order; a list one     *)
(* element per entry in entry order.  Every element carries the namespace of  *)
(* the module that defines its schema node.                                   *)
(***************************************************************************)
EXTENDS FcJson

\* namespaces: NS is a function module name -> namespace URI (from the record)

\* the items an element for the container / entry at p must hold, in order:
\* <<schema node, data path, index (leaf-list element / list entry) or 0>>
RECURSIVE FlatItems(_, _, _)
FlatItems(T, p, kids) ==
    IF kids = << >> THEN << >>
    ELSE LET n == Head(kids)
             q == ChildPath(p, n)
             these ==
                CASE n.kind = "leaf" -> << <<n, q, 0>> >>
                  [] n.kind = "leaflist" -> [ i \in DOMAIN T.leaf[q] |-> <<n, q, i>> ]
                  [] n.kind = "container" -> << <<n, q, 0>> >>
                  [] n.kind = "list" -> [ i \in DOMAIN T.ord[q] |-> <<n, q, i>> ]
         IN these \o FlatItems(T, p, Tail(kids))

TextOK(n, cfg, lex, el) ==
    /\ el.k = << >>
    /\ CASE n.type = "enumeration" /\ cfg.enumids -> el.t = ToString(EnumId(n, lex))
         [] n.type = "identityref" -> el.t \in {lex} \cup { m \o ":" \o lex : m \in cfg.modules }
         [] OTHER -> el.t = lex

IsDefaultExtraEl(DS, T, cfg, p, el) ==
    \E n \in SChildren(DS, SPath(p)) :
        /\ n.kind \in {"leaf", "leaflist"} /\ n.dflt # << >>
        /\ ChildPath(p, n) \notin DOMAIN T.leaf
        \* a leaf-list default comes as one element per default value
        /\ el.n = Name(n) /\ \E i \in DOMAIN n.dflt : TextOK(n, cfg, n.dflt[i], el)

RECURSIVE ElemCheck(_, _, _, _, _, _, _)
RECURSIVE ItemCheck(_, _, _, _, _, _, _)

\* element el renders item it = <<n, q, i>>
ItemCheck(DS, DSseq, NS, cfg, T, it, el) ==
    LET n == it[1]  q == it[2]  i == it[3] IN
    IF el.n # Name(n) THEN "wrong-element-name"
    ELSE IF el.ns # NS[n.module] THEN "wrong-namespace"
    ELSE CASE n.kind = "leaf" -> IF TextOK(n, cfg, T.leaf[q][1], el) THEN "ok" ELSE "wrong-text"
           [] n.kind = "leaflist" -> IF TextOK(n, cfg, T.leaf[q][i], el) THEN "ok" ELSE "wrong-text"
           [] n.kind = "container" -> ElemCheck(DS, DSseq, NS, cfg, T, q, el)
           [] n.kind = "list" ->
                 ElemCheck(DS, DSseq, NS, cfg, T, Append(q, [n |-> LastOf(q).n, k |-> T.ord[q][i]]), el)

\* the children of el render the content of the container / entry at p
ElemCheck(DS, DSseq, NS, cfg, T, p, el) ==
    LET want == FlatItems(T, p, PresentKids(DSseq, T, p))
        got == SelectSeq(el.k, LAMBDA e : ~IsDefaultExtraEl(DS, T, cfg, p, e))
    IN IF Len(got) < Len(want) THEN "element-missing"
       ELSE IF Len(got) > Len(want) THEN "element-not-in-data"
       ELSE IF \A j \in DOMAIN want : ItemCheck(DS, DSseq, NS, cfg, T, want[j], got[j]) = "ok" THEN "ok"
       ELSE \* entries of a list the store keeps in a Go map come in no defined order: every
            \* item is rendered by exactly one element of the same name
            IF /\ \E j \in DOMAIN want : want[j][1].kind = "list" /\ want[j][2] \in cfg.uno
               /\ \A j \in DOMAIN want :
                     Cardinality({ m \in DOMAIN got : ItemCheck(DS, DSseq, NS, cfg, T, want[j], got[m]) = "ok" }) = 1
            THEN "ok"
            ELSE LET j == CHOOSE j \in DOMAIN want :
                            /\ ItemCheck(DS, DSseq, NS, cfg, T, want[j], got[j]) # "ok"
                            /\ \A m \in 1..(j-1) : ItemCheck(DS, DSseq, NS, cfg, T, want[m], got[m]) = "ok"
                 IN ItemCheck(DS, DSseq, NS, cfg, T, want[j], got[j])

\* the whole document written from the selection `at' (root, container or list entry)
XmlDocCheck(DS, DSseq, NS, mainMod, cfg, T, at, el) ==
    IF el.n = "#invalid" THEN "not-well-formed-xml"
    ELSE IF at = << >> THEN
         (IF el.n # mainMod THEN "wrong-root-element"
          ELSE IF el.ns # NS[mainMod] THEN "wrong-namespace"
          ELSE ElemCheck(DS, DSseq, NS, cfg, T, at, el))
    ELSE LET n == SNode(DS, SPath(at)) IN
         IF el.n # Name(n) THEN "wrong-root-element"
         ELSE IF el.ns # NS[n.module] THEN "wrong-namespace"
         ELSE IF ~IsEntry(at) /\ n.kind = "list" THEN
              \* a list start selection: the root element holds one element per entry
              LET items == [ i \in DOMAIN T.ord[at] |-> <<n, at, i>> ] IN
              IF Len(el.k) # Len(items) THEN "list-entry-count"
              ELSE IF at \in cfg.uno THEN
                   (IF \A j \in DOMAIN items :
                          Cardinality({ m \in DOMAIN el.k : ItemCheck(DS, DSseq, NS, cfg, T, items[j], el.k[m]) = "ok" }) = 1
                    THEN "ok" ELSE "list-entries-differ")
              ELSE IF \A j \in DOMAIN items : ItemCheck(DS, DSseq, NS, cfg, T, items[j], el.k[j]) = "ok" THEN "ok"
              ELSE "list-entries-differ"
         ELSE ElemCheck(DS, DSseq, NS, cfg, T, at, el)

-----------------------------------------------------------------------------
(* Canonical document and schema-directed reader, related on the model (FcXmlModel). *)

El(name, ns, text, kids) == [n |-> name, ns |-> ns, t |-> text, k |-> kids]

RECURSIVE CanonKids(_, _, _, _, _)
CanonKids(DS, DSseq, NS, T, p) ==
    LET items == FlatItems(T, p, PresentKids(DSseq, T, p))
        elOf(it) == LET n == it[1]  q == it[2]  i == it[3] IN
            CASE n.kind = "leaf" -> El(Name(n), NS[n.module], T.leaf[q][1], << >>)
              [] n.kind = "leaflist" -> El(Name(n), NS[n.module], T.leaf[q][i], << >>)
              [] n.kind = "container" -> El(Name(n), NS[n.module], "", CanonKids(DS, DSseq, NS, T, q))
              [] n.kind = "list" -> El(Name(n), NS[n.module], "",
                                       CanonKids(DS, DSseq, NS, T, Append(q, [n |-> LastOf(q).n, k |-> T.ord[q][i]])))
    IN [ j \in DOMAIN items |-> elOf(items[j]) ]

\* what a schema-directed reader makes of the children of an element: elements are
\* looked up by name, so siblings may come in any interleaving
RECURSIVE FoldFn(_, _)
FoldFn(f, S) == IF S = {} THEN EmptyTree
                ELSE LET x == CHOOSE x \in S : TRUE IN UnionTrees(f[x], FoldFn(f, S \ {x}))

RECURSIVE ReadKids(_, _, _)
ReadKids(DS, p, kids) ==
    LET named(n) == SelectSeq(kids, LAMBDA e : e.n = Name(n))
        part(n) ==
            LET q == ChildPath(p, n)  es == named(n) IN
            IF es = << >> THEN EmptyTree
            ELSE CASE n.kind = "leaf" -> [leaf |-> (q :> << es[1].t >>), cont |-> {}, ord |-> << >>]
                   [] n.kind = "leaflist" -> [leaf |-> (q :> [ i \in DOMAIN es |-> es[i].t ]), cont |-> {}, ord |-> << >>]
                   [] n.kind = "container" ->
                         UnionTrees([leaf |-> << >>, cont |-> {q}, ord |-> << >>], ReadKids(DS, q, es[1].k))
                   [] n.kind = "list" ->
                         LET keyOf(e) == [ i \in DOMAIN n.keys |->
                                     (CHOOSE ke \in SeqToSet(e.k) : ke.n = n.keys[i]).t ]
                             ents == [ i \in DOMAIN es |->
                                        LET ep == Append(q, [n |-> LastOf(q).n, k |-> keyOf(es[i])])
                                        IN UnionTrees([leaf |-> << >>, cont |-> {ep}, ord |-> << >>], ReadKids(DS, ep, es[i].k)) ]
                         IN UnionTrees([leaf |-> << >>, cont |-> {q}, ord |-> (q :> [ i \in DOMAIN es |-> keyOf(es[i]) ])],
                                       FoldTrees(ents))
        kidsOf == SChildren(DS, SPath(p))
    IN FoldFn([ n \in kidsOf |-> part(n) ], kidsOf)
=============================================================================
