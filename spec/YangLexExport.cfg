
