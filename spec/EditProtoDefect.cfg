SPECIFICATION Spec
CONSTANT SkipEndOnError = TRUE
CONSTANT Shapes <- OneShape
INVARIANT NoViolation
