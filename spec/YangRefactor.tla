----------------------------- MODULE YangRefactor ------------------------------
(***************************************************************************)
(* Meaning-preserving refactorings of a module set (C01): the same schema     *)
(* tree written inline, through groupings (module-level, sibling-scoped,      *)
(* imported), through refines, uses-augments, module augments, submodules,    *)
(* with config stated or inherited.  The state is a module set; every action  *)
(* is one refactoring with the precondition under which RFC 7950 gives the    *)
(* result the same meaning.  MeaningPreserved is checked by TLC in every      *)
(* reachable state; the harness writes every reachable module set as YANG     *)
(* text, loads it with the real parser and TLC compares the compiled tree     *)
(* with Meaning (EvalMeaning).                                                *)
(***************************************************************************)
EXTENDS YangMeaning

CONSTANTS Seeds,        \* the module sets refactoring starts from (all with main module "m")
          MaxSteps,
          Features      \* feature names the seeds mention

VARIABLES ms, seed, steps, fresh
vars == << ms, seed, steps, fresh >>

Main == "m"

-----------------------------------------------------------------------------
(* editing raw statement trees by index path *)

RECURSIVE KidsAt(_, _)
KidsAt(body, ip) == IF ip = << >> THEN body ELSE KidsAt(body[Head(ip)].c, Tail(ip))

RECURSIVE StmtAt(_, _)
StmtAt(body, ip) == IF Len(ip) = 1 THEN body[Head(ip)] ELSE StmtAt(body[Head(ip)].c, Tail(ip))

RECURSIVE WithKidsAt(_, _, _)
WithKidsAt(body, ip, kids) ==
    IF ip = << >> THEN kids
    ELSE [body EXCEPT ![Head(ip)] = [@ EXCEPT !.c = WithKidsAt(@, Tail(ip), kids)]]

RECURSIVE WithStmtAt(_, _, _)
WithStmtAt(body, ip, st) ==
    IF Len(ip) = 1 THEN [body EXCEPT ![Head(ip)] = st]
    ELSE [body EXCEPT ![Head(ip)] = [@ EXCEPT !.c = WithStmtAt(@, Tail(ip), st)]]

\* index paths of all statements (deep); paths through uses statements do not exist (no children)
RECURSIVE PathsIn(_)
PathsIn(body) ==
    UNION { { << i >> } \cup { << i >> \o p : p \in PathsIn(body[i].c) } : i \in DOMAIN body }

\* all ancestors on the way (and the statement itself) are plain data statements
RECURSIVE NamesAlong(_, _)
NamesAlong(body, ip) ==
    IF ip = << >> THEN << >> ELSE << body[Head(ip)].n >> \o NamesAlong(body[Head(ip)].c, Tail(ip))

\* everything written below a statement: its children and, for a uses, what its augments add
Below(s) == s.c \o Flatten([ j \in DOMAIN s.aug |-> s.aug[j].c ])

RECURSIVE HasUses(_)
HasUses(ss) == \E i \in DOMAIN ss : ss[i].k = "uses" \/ HasUses(ss[i].c)

RECURSIVE HasIff(_)
HasIff(ss) == \E i \in DOMAIN ss : ss[i].iff # "" \/ HasIff(Below(ss[i]))

RECURSIVE HasLocalGroupings(_)
HasLocalGroupings(ss) == \E i \in DOMAIN ss : ss[i].gs # << >> \/ HasLocalGroupings(ss[i].c)

Container(s) == s.k \in {"container", "list", "case"}

\* the type statements of the leaves in ss (deep)
RECURSIVE TypeRefs(_)
TypeRefs(ss) == UNION { IF ss[i].k \in {"leaf", "leaflist"} THEN { ss[i].ty } ELSE TypeRefs(Below(ss[i])) : i \in DOMAIN ss }

RECURSIVE HasLocalTypedefs(_)
HasLocalTypedefs(ss) == \E i \in DOMAIN ss : ss[i].tds # << >> \/ HasLocalTypedefs(ss[i].c)

\* a type reference that means the same anywhere in the module: built-in, prefixed, or a module-level typedef
ModuleWide(ty) == (ty.p = "" /\ ty.n \in Builtins) \/ ty.p \notin {"", ms[Main].prefix} \/ IndexOfName(ModuleLevel(ms, Main).tds, ty.n) > 0

RECURSIVE UsesRefs(_)
UsesRefs(ss) == UNION { (IF ss[i].k = "uses" THEN { ss[i].ref0 } ELSE {}) \cup UsesRefs(Below(ss[i])) : i \in DOMAIN ss }

-----------------------------------------------------------------------------
(* rewriting every uses of a grouping, everywhere in the module set *)

\* a reference to a grouping of the main module: without prefix, or with the module's own
OwnRef(r, ref) == r.g = ref.g /\ r.p \in {"", ms[Main].prefix}

RECURSIVE MapUses(_, _, _, _)
\* what = "refine": prepend refinement x;  "augment": prepend augment x;  "prefix": set prefix x
MapUses(ss, ref, what, x) ==
    [ i \in DOMAIN ss |->
        LET s == ss[i] IN
        IF s.k = "uses" THEN
            LET s0 == [s EXCEPT !.aug = [ j \in DOMAIN s.aug |-> [s.aug[j] EXCEPT !.c = MapUses(s.aug[j].c, ref, what, x)] ]] IN
            (IF OwnRef(s.ref0, ref) THEN
                CASE what = "refine" -> [s0 EXCEPT !.ref = << x >> \o @]
                  [] what = "augment" -> [s0 EXCEPT !.aug = << x >> \o @]
                  [] what = "prefix" -> [s0 EXCEPT !.ref0 = [p |-> x, g |-> ref.g]]
             ELSE s0)
        ELSE [s EXCEPT !.c = MapUses(s.c, ref, what, x),
                       !.gs = [ j \in DOMAIN s.gs |-> [s.gs[j] EXCEPT !.c = MapUses(s.gs[j].c, ref, what, x)] ]] ]

MapUsesModule(m, ref, what, x) ==
    [m EXCEPT !.body = MapUses(m.body, ref, what, x),
              !.gs = [ j \in DOMAIN m.gs |-> [m.gs[j] EXCEPT !.c = MapUses(m.gs[j].c, ref, what, x)] ],
              !.augs = [ j \in DOMAIN m.augs |-> [m.augs[j] EXCEPT !.c = MapUses(m.augs[j].c, ref, what, x)] ]]

\* only the modules that see the grouping under the unprefixed name: the main module and its submodules
Family == { n \in DOMAIN ms : n = Main \/ (ms[n].sub /\ ms[n].belongs = Main) }

MapUsesAll(set, ref, what, x) ==
    [ n \in DOMAIN set |-> IF n \in Family THEN MapUsesModule(set[n], ref, what, x) ELSE set[n] ]

RECURSIVE UsesOf(_, _)
UsesOf(ss, ref) ==
    UNION { IF ss[i].k = "uses" THEN (IF OwnRef(ss[i].ref0, ref) THEN { ss[i] } ELSE {}) \cup UsesOf(Below(ss[i]), ref)
            ELSE UsesOf(ss[i].c, ref) \cup UNION { UsesOf(ss[i].gs[j].c, ref) : j \in DOMAIN ss[i].gs }
            : i \in DOMAIN ss }

AllUsesOf(ref) ==
    UNION { UsesOf(ms[n].body, ref) \cup UNION { UsesOf(ms[n].gs[j].c, ref) : j \in DOMAIN ms[n].gs }
                                   \cup UNION { UsesOf(ms[n].augs[j].c, ref) : j \in DOMAIN ms[n].augs }
            : n \in Family }

IsPrefixSeq(a, b) == Len(a) <= Len(b) /\ SubSeq(b, 1, Len(a)) = a

FreshName(kind) == CASE fresh = 0 -> kind \o "x1" [] fresh = 1 -> kind \o "x2" [] fresh = 2 -> kind \o "x3" [] OTHER -> kind \o "x4"

-----------------------------------------------------------------------------
(* the refactorings; M is the main module *)

M == ms[Main]

Step(newMs) == /\ steps < MaxSteps /\ ms' = newMs /\ steps' = steps + 1 /\ fresh' = fresh + 1 /\ UNCHANGED seed

\* R1: children i..j of the statement at ip (or of the module body) become a grouping used in their place;
\* the grouping is defined at module level, or (local) on the statement itself
ExtractGrouping ==
    \E ip \in PathsIn(M.body) \cup { << >> }, local \in BOOLEAN :
      LET kids == KidsAt(M.body, ip) IN
      /\ (IF ip = << >> THEN ~local ELSE Container(StmtAt(M.body, ip)))
      \* RFC 7950 7.9.2: a case has no grouping substatement
      /\ (local => StmtAt(M.body, ip).k \in {"container", "list"})
      /\ \E i \in DOMAIN kids : \E j \in i..Len(kids) :
            LET seg == SubSeq(kids, i, j)
                name == FreshName("g")
                g == [n |-> name, c |-> seg, gs |-> << >>, tds |-> << >>]
                u == [St("uses", name) EXCEPT !.ref0 = [p |-> "", g |-> name]]
                newKids == SubSeq(kids, 1, i - 1) \o << u >> \o SubSeq(kids, j + 1, Len(kids))
                body1 == WithKidsAt(M.body, ip, newKids)
            IN \* what the statements refer to must be visible where the grouping is defined
               /\ (local \/ \A r \in UsesRefs(seg) : r.p \notin {"", M.prefix} \/ IndexOfName(ModuleGroupings(ms, Main), r.g) > 0)
               /\ (local \/ \A t \in TypeRefs(seg) : ModuleWide(t))
               /\ Step([ms EXCEPT ![Main] =
                        IF local
                        THEN [M EXCEPT !.body = WithStmtAt(body1, ip, [StmtAt(body1, ip) EXCEPT !.gs = @ \o << g >>])]
                        ELSE [M EXCEPT !.body = body1, !.gs = @ \o << g >>]])

\* R2: a uses without refines / augments is replaced by the grouping's statements
InlineUses ==
    \E ip \in PathsIn(M.body) :
      LET s == StmtAt(M.body, ip)
          parent == SubSeq(ip, 1, Len(ip) - 1)
          kids == KidsAt(M.body, parent)
          i == ip[Len(ip)]
      IN /\ s.k = "uses" /\ s.ref = << >> /\ s.aug = << >> /\ s.ref0.p = "" /\ s.iff = ""
         /\ LET gi == IndexOfName(M.gs, s.ref0.g) IN
            /\ gi > 0 /\ M.gs[gi].gs = << >> /\ M.gs[gi].tds = << >>
            /\ Step([ms EXCEPT ![Main] = [M EXCEPT !.body =
                      WithKidsAt(M.body, parent, SubSeq(kids, 1, i - 1) \o M.gs[gi].c \o SubSeq(kids, i + 1, Len(kids)))]])

\* R3: a property stated on a statement inside a module-level grouping moves into a refine of every uses
AttrToRefine ==
    \E gi \in DOMAIN M.gs : \E rp \in PathsIn(M.gs[gi].c) : \E attr \in {"cfg", "mand", "dflt", "desc"} :
      LET g == M.gs[gi]
          s == StmtAt(g.c, rp)
          old == CASE attr = "cfg" -> s.cfg [] attr = "mand" -> s.mand [] attr = "dflt" -> s.dflt [] attr = "desc" -> s.desc
          names == NamesAlong(g.c, rp)
          cleared == SetAttr(s, attr, "")
          ref == [p |-> "", g |-> g.n]
      IN /\ old # "" /\ s.k # "uses" /\ s.k # "case"
         /\ \A k \in 1..(Len(rp) - 1) : StmtAt(g.c, SubSeq(rp, 1, k)).k \notin {"uses"}
         /\ AllUsesOf(ref) # {}
         /\ LET ms1 == [ms EXCEPT ![Main] = [M EXCEPT !.gs = [@ EXCEPT ![gi] = [g EXCEPT !.c = WithStmtAt(g.c, rp, cleared)]]]]
            IN Step(MapUsesAll(ms1, ref, "refine", [path |-> names, attr |-> attr, val |-> old]))

\* R4: the last child of a container inside a module-level grouping moves into an augment of every uses
TailToUsesAugment ==
    \E gi \in DOMAIN M.gs : \E rp \in PathsIn(M.gs[gi].c) :
      LET g == M.gs[gi]
          t == StmtAt(g.c, rp)
          names == NamesAlong(g.c, rp)
          ref == [p |-> "", g |-> g.n]
      IN /\ t.k \in {"container", "list", "choice", "case"} /\ Len(t.c) >= 2
         /\ \A k \in 1..Len(rp) : StmtAt(g.c, SubSeq(rp, 1, k)).k # "uses"
         /\ LET x == t.c[Len(t.c)] IN
            /\ x.k # "uses" /\ ~HasUses(<< x >>) /\ ~HasLocalGroupings(<< x >>)
            /\ (\A ty \in TypeRefs(<< x >>) : ModuleWide(ty)) /\ g.tds = << >>
            /\ (t.k = "choice" => x.k = "case")
            /\ (t.k = "list" => \A k \in DOMAIN t.keys : t.keys[k] # x.n)
            /\ AllUsesOf(ref) # {}
            /\ \A u \in AllUsesOf(ref) : \A r \in DOMAIN u.ref : ~IsPrefixSeq(names \o << x.n >>, u.ref[r].path)
            /\ \A u \in AllUsesOf(ref) : \A a \in DOMAIN u.aug : ~IsPrefixSeq(names \o << x.n >>, u.aug[a].path)
            /\ LET t1 == [t EXCEPT !.c = SubSeq(t.c, 1, Len(t.c) - 1)]
                   ms1 == [ms EXCEPT ![Main] = [M EXCEPT !.gs = [@ EXCEPT ![gi] = [g EXCEPT !.c = WithStmtAt(g.c, rp, t1)]]]]
               IN Step(MapUsesAll(ms1, ref, "augment", [path |-> names, c |-> << x >>]))

\* R5: the last child of a container written directly in the module body moves into a module-level augment
TailToModuleAugment ==
    \E ip \in PathsIn(M.body) :
      LET t == StmtAt(M.body, ip)
          names == NamesAlong(M.body, ip)
      IN /\ t.k \in {"container", "list", "choice", "case"} /\ Len(t.c) >= 2
         /\ \A k \in 1..Len(ip) : StmtAt(M.body, SubSeq(ip, 1, k)).k # "uses"
         /\ \A k \in 1..Len(ip) : StmtAt(M.body, SubSeq(ip, 1, k)).iff = ""
         /\ LET x == t.c[Len(t.c)] IN
            /\ x.k # "uses" /\ ~HasLocalGroupings(<< x >>)
            /\ (t.k = "choice" => x.k = "case")
            /\ (t.k = "list" => \A k \in DOMAIN t.keys : t.keys[k] # x.n)
            \* what x's own statements refer to must be visible at module level
            /\ \A k \in 1..Len(ip) : StmtAt(M.body, SubSeq(ip, 1, k)).gs = << >>
            /\ \A k \in 1..Len(ip) : StmtAt(M.body, SubSeq(ip, 1, k)).tds = << >>
            \* config is inherited through the target: an augment inherits from its target too
            /\ Step([ms EXCEPT ![Main] = [M EXCEPT !.body = WithStmtAt(M.body, ip, [t EXCEPT !.c = SubSeq(t.c, 1, Len(t.c) - 1)]),
                                                   !.augs = << [path |-> names, c |-> << x >>, mod |-> ""] >> \o @]])

\* R6: the last statement of the module body moves to the front of the first submodule (created when there is none)
TailToSubmodule ==
    /\ Len(M.body) >= 2
    /\ LET x == M.body[Len(M.body)]
           body1 == SubSeq(M.body, 1, Len(M.body) - 1)
       IN IF M.includes = << >>
          THEN Step([ n \in DOMAIN ms \cup {"sx"} |->
                      IF n = Main THEN [M EXCEPT !.body = body1, !.includes = << "sx" >>]
                      ELSE IF n = "sx" THEN [name |-> "sx", prefix |-> M.prefix, sub |-> TRUE, belongs |-> Main, gs |-> << >>, tds |-> << >>, ids |-> << >>,
                                             body |-> << x >>, augs |-> << >>, includes |-> << >>, imports |-> M.imports]
                      ELSE ms[n] ])
          ELSE LET sn == M.includes[1] IN
               Step([ms EXCEPT ![Main] = [M EXCEPT !.body = body1], ![sn] = [@ EXCEPT !.body = << x >> \o @]])

\* R7: a self-contained module-level grouping moves into an imported module; every uses gets the prefix
GroupingToImport ==
    \E gi \in DOMAIN M.gs :
      LET g == M.gs[gi]
          ref == [p |-> "", g |-> g.n]
          gs1 == SubSeq(M.gs, 1, gi - 1) \o SubSeq(M.gs, gi + 1, Len(M.gs))
      IN /\ ~HasUses(g.c) /\ g.gs = << >> /\ ~HasIff(g.c)
         /\ g.tds = << >> /\ \A ty \in TypeRefs(g.c) : ty.n \in Builtins /\ ty.p = "" /\ ty.base = NoBase
         /\ "ix" \notin DOMAIN ms
         /\ LET m1 == [M EXCEPT !.gs = gs1, !.imports = @ \o << [m |-> "ix", p |-> "ix"] >>]
                base == [ n \in DOMAIN ms \cup {"ix"} |->
                           IF n = Main THEN m1
                           ELSE IF n = "ix" THEN [name |-> "ix", prefix |-> "ix", sub |-> FALSE, belongs |-> "", gs |-> << g >>, tds |-> << >>, ids |-> << >>,
                                                  body |-> << >>, augs |-> << >>, includes |-> << >>, imports |-> << >>]
                           ELSE IF ms[n].sub /\ ms[n].belongs = Main THEN [ms[n] EXCEPT !.imports = @ \o << [m |-> "ix", p |-> "ix"] >>]
                           ELSE ms[n] ]
            IN Step([ n \in DOMAIN base |->
                       IF n = Main \/ (base[n].sub /\ base[n].belongs = Main) THEN MapUsesModule(base[n], ref, "prefix", "ix") ELSE base[n] ])

\* R8: a module-level grouping moves into the first submodule
GroupingToSubmodule ==
    /\ M.includes # << >>
    /\ \E gi \in DOMAIN M.gs :
         LET sn == M.includes[1] IN
         Step([ms EXCEPT ![Main] = [M EXCEPT !.gs = SubSeq(M.gs, 1, gi - 1) \o SubSeq(M.gs, gi + 1, Len(M.gs))],
                         ![sn] = [@ EXCEPT !.gs = @ \o << M.gs[gi] >>]])

\* R9: config stated where it equals what would be inherited, or removed where it is stated redundantly
RECURSIVE InheritedCfg(_, _, _)
InheritedCfg(body, ip, k) ==   \* nearest statement among the first k ancestors that states config; "" none
    IF k = 0 THEN "true"
    ELSE LET a == StmtAt(body, SubSeq(ip, 1, k)) IN IF a.cfg # "" THEN a.cfg ELSE InheritedCfg(body, ip, k - 1)

ToggleConfig ==
    \E ip \in PathsIn(M.body) :
      LET s == StmtAt(M.body, ip)
          inh == InheritedCfg(M.body, ip, Len(ip) - 1)
      IN /\ s.k \notin {"uses", "case"}
         /\ \A k \in 1..Len(ip) : StmtAt(M.body, SubSeq(ip, 1, k)).k # "uses"
         \* a module-level augment into an ancestor does not change what is inherited here
         /\ \/ s.cfg = "" /\ Step([ms EXCEPT ![Main] = [M EXCEPT !.body = WithStmtAt(M.body, ip, [s EXCEPT !.cfg = inh])]])
            \/ s.cfg = inh /\ Step([ms EXCEPT ![Main] = [M EXCEPT !.body = WithStmtAt(M.body, ip, [s EXCEPT !.cfg = ""])]])


-----------------------------------------------------------------------------
(* refactorings of type statements (C02) *)

IsPlainPath(ip) == \A k \in 1..Len(ip) : StmtAt(M.body, SubSeq(ip, 1, k)).k # "uses"

\* T1: the built-in type statement of a leaf becomes a typedef (at module level, or local to the
\* enclosing container / list); its default and units move along or stay on the leaf
ExtractTypedef ==
    \E ip \in PathsIn(M.body), local \in BOOLEAN, moveD \in BOOLEAN, moveU \in BOOLEAN :
      LET s == StmtAt(M.body, ip)
          name == FreshName("t")
          td == [n |-> name, ty |-> s.ty, dflt |-> IF moveD THEN s.dflt ELSE "", units |-> IF moveU THEN s.units ELSE ""]
          s1 == [s EXCEPT !.ty = [p |-> "", n |-> name, rng |-> "", len |-> "", en |-> << >>, base |-> NoBase, mem |-> << >>, path |-> << >>],
                          !.dflt = IF moveD THEN "" ELSE s.dflt, !.units = IF moveU THEN "" ELSE s.units]
          parent == SubSeq(ip, 1, Len(ip) - 1)
      IN /\ s.k \in {"leaf", "leaflist"} /\ IsPlainPath(ip) /\ s.ty.p = "" /\ s.ty.n \in Builtins
         /\ (moveD => s.dflt # "") /\ (moveU => s.units # "")
         \* a mandatory leaf has no default: a typedef default would give it one
         /\ (moveD => s.mand # "true")
         /\ IF local
            THEN /\ parent # << >> /\ StmtAt(M.body, parent).k \in {"container", "list"}
                 /\ LET b1 == WithStmtAt(M.body, ip, s1)
                    IN Step([ms EXCEPT ![Main] = [M EXCEPT !.body = WithStmtAt(b1, parent, [StmtAt(b1, parent) EXCEPT !.tds = @ \o << td >>])]])
            ELSE Step([ms EXCEPT ![Main] = [M EXCEPT !.body = WithStmtAt(M.body, ip, s1), !.tds = @ \o << td >>]])

\* T2: a module-level typedef gets an intermediate typedef that takes over everything it states
ChainTypedef ==
    \E i \in DOMAIN M.tds :
      LET t == M.tds[i]
          name == FreshName("t")
          lower == [t EXCEPT !.n = name]
          upper == [n |-> t.n, ty |-> [p |-> "", n |-> name, rng |-> "", len |-> "", en |-> << >>, base |-> NoBase, mem |-> << >>, path |-> << >>], dflt |-> "", units |-> ""]
      IN Step([ms EXCEPT ![Main] = [M EXCEPT !.tds = [@ EXCEPT ![i] = upper] \o << lower >>]])

\* T3: what a leaf inherits from its typedef chain is stated on the leaf itself, or a stated value that
\* equals what would be inherited is removed
ToggleInherited ==
    \E ip \in PathsIn(M.body), attr \in {"dflt", "units"} :
      LET s == StmtAt(M.body, ip)
          \* all enclosing statements are plain, so the lexical scope can be rebuilt from them
          scope == [ k \in 1..(Len(ip) - 1) |->
                       LET a == StmtAt(M.body, SubSeq(ip, 1, Len(ip) - k)) IN [gs |-> a.gs, tds |-> a.tds] ]
                   \o << ModuleLevel(ms, Main) >>
          r == ResolveType(ms, Main, scope, s.ty)
          inh == IF attr = "dflt" THEN r.dflt ELSE r.units
          own == IF attr = "dflt" THEN s.dflt ELSE s.units
          put(v) == IF attr = "dflt" THEN [s EXCEPT !.dflt = v] ELSE [s EXCEPT !.units = v]
      IN /\ s.k \in {"leaf", "leaflist"} /\ IsPlainPath(ip) /\ inh # ""
         /\ (attr = "dflt" => s.mand # "true")
         /\ \/ own = "" /\ Step([ms EXCEPT ![Main] = [M EXCEPT !.body = WithStmtAt(M.body, ip, put(inh))]])
            \/ own = inh /\ Step([ms EXCEPT ![Main] = [M EXCEPT !.body = WithStmtAt(M.body, ip, put(""))]])

\* rewriting references to a typedef everywhere in the main module and its submodules
RECURSIVE MapTypes(_, _, _)
MapTypes(ss, name, prefix) ==
    [ i \in DOMAIN ss |->
        LET s == ss[i]
            fix1(ty) == IF ty.p = "" /\ ty.n = name THEN [ty EXCEPT !.p = prefix] ELSE ty
            fix(ty) == [fix1(ty) EXCEPT !.mem = [ j \in DOMAIN @ |-> fix1(@[j]) ]]
        IN [s EXCEPT !.ty = fix(s.ty),
                     !.c = MapTypes(s.c, name, prefix),
                     !.tds = [ j \in DOMAIN s.tds |-> [s.tds[j] EXCEPT !.ty = fix(@)] ],
                     !.gs = [ j \in DOMAIN s.gs |-> [s.gs[j] EXCEPT !.c = MapTypes(s.gs[j].c, name, prefix),
                                                                    !.tds = [ k \in DOMAIN s.gs[j].tds |-> [s.gs[j].tds[k] EXCEPT !.ty = fix(@)] ]] ],
                     !.aug = [ j \in DOMAIN s.aug |-> [s.aug[j] EXCEPT !.c = MapTypes(s.aug[j].c, name, prefix)] ]] ]

MapTypesModule(m, name, prefix) ==
    LET fix1(ty) == IF ty.p = "" /\ ty.n = name THEN [ty EXCEPT !.p = prefix] ELSE ty
        fix(ty) == [fix1(ty) EXCEPT !.mem = [ j \in DOMAIN @ |-> fix1(@[j]) ]] IN
    [m EXCEPT !.body = MapTypes(m.body, name, prefix),
              !.tds = [ j \in DOMAIN m.tds |-> [m.tds[j] EXCEPT !.ty = fix(@)] ],
              !.gs = [ j \in DOMAIN m.gs |-> [m.gs[j] EXCEPT !.c = MapTypes(m.gs[j].c, name, prefix),
                                                              !.tds = [ k \in DOMAIN m.gs[j].tds |-> [m.gs[j].tds[k] EXCEPT !.ty = fix(@)] ]] ],
              !.augs = [ j \in DOMAIN m.augs |-> [m.augs[j] EXCEPT !.c = MapTypes(m.augs[j].c, name, prefix)] ]]

RECURSIVE ShadowedIn(_, _)
ShadowedIn(ss, name) ==
    \E i \in DOMAIN ss : \/ IndexOfName(ss[i].tds, name) > 0
                         \/ ShadowedIn(ss[i].c, name)
                         \/ \E j \in DOMAIN ss[i].gs : IndexOfName(ss[i].gs[j].tds, name) > 0 \/ ShadowedIn(ss[i].gs[j].c, name)

\* T4: a module-level typedef over a built-in type moves into an imported module; references get the prefix
TypedefToImport ==
    \E i \in DOMAIN M.tds :
      LET t == M.tds[i]
          tds1 == SubSeq(M.tds, 1, i - 1) \o SubSeq(M.tds, i + 1, Len(M.tds))
      IN /\ t.ty.p = "" /\ t.ty.n \in Builtins /\ t.ty.base = NoBase
         /\ \A j \in DOMAIN t.ty.mem : t.ty.mem[j].p = "" /\ t.ty.mem[j].n \in Builtins
         /\ "ix" \notin DOMAIN ms
         \* no local typedef of the same name anywhere (the unprefixed name keeps meaning the local one)
         /\ \A n \in Family : ~ShadowedIn(ms[n].body, t.n) /\ \A j \in DOMAIN ms[n].gs : IndexOfName(ms[n].gs[j].tds, t.n) = 0 /\ ~ShadowedIn(ms[n].gs[j].c, t.n)
         /\ LET m1 == [M EXCEPT !.tds = tds1, !.imports = @ \o << [m |-> "ix", p |-> "ix"] >>]
                base == [ n \in DOMAIN ms \cup {"ix"} |->
                           IF n = Main THEN m1
                           ELSE IF n = "ix" THEN [name |-> "ix", prefix |-> "ix", sub |-> FALSE, belongs |-> "", gs |-> << >>, tds |-> << t >>, ids |-> << >>,
                                                  body |-> << >>, augs |-> << >>, includes |-> << >>, imports |-> << >>]
                           ELSE IF ms[n].sub /\ ms[n].belongs = Main THEN [ms[n] EXCEPT !.imports = @ \o << [m |-> "ix", p |-> "ix"] >>]
                           ELSE ms[n] ]
            IN Step([ n \in DOMAIN base |->
                       IF n = Main \/ (base[n].sub /\ base[n].belongs = Main) THEN MapTypesModule(base[n], t.n, "ix") ELSE base[n] ])

\* T5: a module-level typedef moves into the first submodule
TypedefToSubmodule ==
    /\ M.includes # << >>
    /\ \E i \in DOMAIN M.tds :
         LET sn == M.includes[1] IN
         Step([ms EXCEPT ![Main] = [M EXCEPT !.tds = SubSeq(M.tds, 1, i - 1) \o SubSeq(M.tds, i + 1, Len(M.tds))],
                         ![sn] = [@ EXCEPT !.tds = @ \o << M.tds[i] >>]])

NextTypes == \/ ExtractTypedef \/ ChainTypedef \/ ToggleInherited \/ TypedefToImport \/ TypedefToSubmodule
             \/ ExtractGrouping \/ InlineUses \/ GroupingToSubmodule \/ TailToSubmodule

\* R10: an unprefixed uses is written with the module's own prefix (RFC 7950 6.4.1: the prefix of the
\* current module refers to the same definitions as no prefix, in every scope)
OwnPrefix ==
    \E ip \in PathsIn(M.body) :
      LET s == StmtAt(M.body, ip) IN
      /\ s.k = "uses" /\ s.ref0.p = ""
      /\ Step([ms EXCEPT ![Main] = [M EXCEPT !.body = WithStmtAt(M.body, ip, [s EXCEPT !.ref0 = [p |-> M.prefix, g |-> s.ref0.g]])]])

Next == \/ OwnPrefix \/ ExtractGrouping \/ InlineUses \/ AttrToRefine \/ TailToUsesAugment \/ TailToModuleAugment
        \/ TailToSubmodule \/ GroupingToImport \/ GroupingToSubmodule \/ ToggleConfig

Init == /\ seed \in Seeds /\ ms = seed /\ steps = 0 /\ fresh = 0
Spec == Init /\ [][Next]_vars
SpecTypes == Init /\ [][NextTypes]_vars

-----------------------------------------------------------------------------
MeaningPreserved == \A on \in SUBSET Features : Meaning(ms, Main, on) = Meaning(seed, Main, on)

=============================================================================
