SPECIFICATION Spec
CONSTANT MaxLen = 5
INVARIANT ParenPreserves
INVARIANT DoubleNegation
INVARIANT Shape
INVARIANT Precedence
