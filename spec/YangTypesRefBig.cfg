SPECIFICATION SpecTypes
CONSTANTS
  Seeds <- SeedSet
  Features <- FeatureSet
  MaxSteps = 3
INVARIANTS MeaningPreserved Emit
CHECK_DEADLOCK FALSE
