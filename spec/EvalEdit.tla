------------------------------ MODULE EvalEdit ------------------------------
(* Record-mode evaluation of observed edit calls against FcEdit (C03 C09 C18). *)
EXTENDS EditChecks

DS == TLCEval(IndexDS(JsonDeserialize(IOEnv.SCHEMA)))

Check(r) == CASE r.chk = "edit" -> CheckEdit(DS, r)
              [] r.chk = "findall" -> CheckFindAll(DS, r)
              [] r.chk = "skip" -> "ok"
              [] OTHER -> "harness-unknown-chk"

ASSUME EvalAll(Check)
=============================================================================
