------------------------------ MODULE EvalEdit ------------------------------
(* Record-mode evaluation of observed edit calls against FcEdit (C03 C09 C18). *)
EXTENDS FcEdit, EvalBase

DS == JsonDeserialize(IOEnv.SCHEMA)

\* {"chk":"edit","schema":..,"impl":..,"src":..,"ordered":BOOL,"pre":Tree,
\*  "op":{"k":..,"at":Path,"s":Tree},"res":{"ok":BOOL,"err":..},"post":Tree}
CheckEdit(r) ==
    IF ~(WireOK(r.pre) /\ WireOK(r.op.s)) THEN
         (IF r.step = 0 THEN "harness-wire-duplicates" ELSE "ok")  \* corrupted by an earlier, reported step
    ELSE IF ~WireOK(r.post) THEN
         (IF r.res.err = "panic" THEN "panic" ELSE "duplicate-entries-in-store")
    ELSE LET T == TreeOf(r.pre)
             post == TreeOf(r.post)
             S == TreeOf(r.op.s)
             op == [k |-> r.op.k, at |-> r.op.at, s |-> S]
             \* order is observable for a list only if the target holds it in a slice and the
             \* source presents entries in a defined order
             uno == IF r.srcordered THEN UnorderedOf(r.post)
                    ELSE UnorderedOf(r.post) \cup DOMAIN S.ord
         IN IF ~WellFormed(DS, T) THEN "ok"  \* state already corrupted by an earlier, reported step
            ELSE IF r.res.err = "panic" THEN "panic"
            ELSE LET c == CASE op.k \in {"upsert", "insert", "update"} ->
                               EditCheck(DS, uno, T, op, r.res, post)
                            [] op.k = "delete" -> DeleteCheck(UnorderedOf(r.post), T, op.at, r.res, post)
                            [] op.k = "replace" -> ReplaceCheck(DS, uno, T, op.at, S, r.res, post)
                            [] OTHER -> "harness-unknown-op"
                 IN IF c # "ok" THEN c
                    ELSE IF ~KeysUnique(post) THEN "duplicate-keys"
                    ELSE IF ~OneCase(DS, post) THEN "two-cases-hold-data"
                    ELSE IF ~WellFormed(DS, post) THEN "post-not-wellformed"
                    ELSE "ok"

Check(r) == CASE r.chk = "edit" -> CheckEdit(r)
              [] r.chk = "skip" -> "ok"
              [] OTHER -> "harness-unknown-chk"

ASSUME EvalAll(Check)
=============================================================================
