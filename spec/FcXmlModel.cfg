SPECIFICATION Spec
VIEW View
INVARIANT Inv_XmlAdmitted
INVARIANT Inv_XmlRoundTrip
INVARIANT Inv_XmlInterleaving
