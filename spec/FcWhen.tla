------------------------------- MODULE FcWhen -------------------------------
(***************************************************************************)
(* Conditions of the XPath subset (C16): `path <op> literal' where path is   *)
(* a sequence of names ending in a leaf.  A comparison holds exactly when it  *)
(* holds for the values denoted (Values: exact number line, code-point order  *)
(* of strings, enum by name for (in)equality) and is FALSE when the leaf has   *)
(* no value (a schema default counts as the value).                           *)
(*   when  on a container: evaluated with the container as context node;      *)
(*         on a leaf: with the leaf's parent as context node (as the          *)
(*         repository's tests fix it)                                         *)
(*   a node is VISIBLE iff its own `when' and those of all its ancestors hold *)
(*   where keeps exactly the entries of the list for which the condition,     *)
(*         evaluated on the entry, holds; filter likewise for events.         *)
(***************************************************************************)
EXTENDS FcRead, Values

FmtOfType(t) == CASE t \in IntFmts -> t
                  [] t = "decimal64" -> "decimal64"
                  [] t = "boolean" -> "boolean"
                  [] t = "enumeration" -> "enumeration"
                  [] OTHER -> "string"

OpHolds(op, c) == CASE op = "=" -> c = 0
                    [] op = "!=" -> c # 0
                    [] op = "<" -> c < 0
                    [] op = "<=" -> c <= 0
                    [] op = ">" -> c > 0
                    [] op = ">=" -> c >= 0

\* value of the leaf at data path lp: set value, else schema default, else none
LeafVal(DS, T, lp) ==
    IF lp \in DOMAIN T.leaf THEN T.leaf[lp]
    ELSE IF HasSNode(DS, SPath(lp)) /\ SNode(DS, SPath(lp)).dflt # << >> THEN SNode(DS, SPath(lp)).dflt
    ELSE << >>

RECURSIVE HoldsAt(_, _, _, _, _)
RECURSIVE WhenHolds(_, _, _)
\* does `names <op> lit' hold with context data path ctx (names may cross containers and
\* lists; through a list: some entry satisfies the rest)
HoldsAt(DS, T, ctx, names, c) ==
    LET q == Append(ctx, [n |-> Head(names), k |-> << >>])
        n == SNode(DS, SPath(q))
    IN IF ~HasSNode(DS, SPath(q)) THEN FALSE
       ELSE IF n.kind = "leaf" THEN
            LET v == LeafVal(DS, T, q) IN
            /\ Len(names) = 1 /\ v # << >>
            /\ WhenHolds(DS, T, q)       \* an invisible node has no value
            /\ Known(FmtOfType(n.type), v[1]) /\ Known(FmtOfType(n.type), c.lit)
            /\ OpHolds(c.op, Cmp(FmtOfType(n.type), v[1], c.lit))
       ELSE IF n.kind = "container" THEN
            q \in T.cont /\ WhenHolds(DS, T, q) /\ Len(names) > 1 /\ HoldsAt(DS, T, q, Tail(names), c)
       ELSE IF n.kind = "list" THEN
            /\ q \in T.cont /\ Len(names) > 1
            /\ \E i \in DOMAIN T.ord[q] :
                  HoldsAt(DS, T, Append(q, [n |-> Head(names), k |-> T.ord[q][i]]), Tail(names), c)
       ELSE FALSE

\* the comparison is within what the spec can decide (both operands are points of a line)
Decidable(DS, T, ctx, c) ==
    LET q == ctx \o [ i \in DOMAIN c.path |-> [n |-> c.path[i], k |-> << >>] ] IN
    Len(c.path) = 1 =>
       (HasSNode(DS, SPath(q)) /\ (LeafVal(DS, T, q) = << >> \/
          (Known(FmtOfType(SNode(DS, SPath(q)).type), LeafVal(DS, T, q)[1])
             /\ Known(FmtOfType(SNode(DS, SPath(q)).type), c.lit))))

WhenHolds(DS, T, p) ==
    LET n == SNode(DS, SPath(p)) IN
    IF IsEntry(p) \/ ~n.whenp.on THEN TRUE
    ELSE LET ctx == IF n.whenp.ctx = "parent" THEN FrontOf(p) ELSE p
         IN HoldsAt(DS, T, ctx, n.whenp.path, n.whenp)

\* own when and the when of every ancestor
Visible(DS, T, p) == \A i \in 1..Len(p) : WhenHolds(DS, T, SubSeq(p, 1, i))

\* the read of the whole tree with invisible nodes removed: class of disagreement
WhenReadCheck(DS, T, res, R) ==
    LET leaves == { p \in DOMAIN T.leaf : Visible(DS, T, p) }
        conts == { c \in T.cont : Visible(DS, T, c) }
        dfltOK(p) == /\ p \notin DOMAIN T.leaf /\ HasSNode(DS, SPath(p))
                     /\ SNode(DS, SPath(p)).dflt # << >> /\ R.leaf[p] = SNode(DS, SPath(p)).dflt
                     /\ (Len(p) = 1 \/ FrontOf(p) \in conts) /\ WhenHolds(DS, T, p)
    IN IF ~res.ok THEN "read-failed"
       ELSE IF \E p \in leaves : p \notin DOMAIN R.leaf THEN "visible-leaf-not-read"
       ELSE IF \E p \in leaves : R.leaf[p] # T.leaf[p] THEN "wrong-value-read"
       ELSE IF \E p \in DOMAIN R.leaf \ leaves : p \in DOMAIN T.leaf THEN "hidden-leaf-read"
       ELSE IF \E p \in DOMAIN R.leaf \ leaves : ~dfltOK(p) THEN "leaf-not-in-data-read"
       ELSE IF \E c \in conts : c \notin R.cont THEN "visible-node-not-read"
       ELSE IF \E c \in R.cont : c \notin conts THEN
            (IF \E c \in R.cont : c \notin T.cont THEN "node-not-in-data-read" ELSE "hidden-node-read")
       ELSE "ok"
=============================================================================
