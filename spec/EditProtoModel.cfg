SPECIFICATION Spec
CONSTANT SkipEndOnError = FALSE
CONSTANT Shapes <- AllShapes
INVARIANT NoViolation
INVARIANT ReturnsBalanced
