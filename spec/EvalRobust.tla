----------------------------- MODULE EvalRobust ------------------------------
(* Record-mode evaluation of robustness requests (C13 C14). *)
EXTENDS Robust, EvalBase

\* {"chk":"robust","kind":K,"shape":S,"out":O,"walk":W}
Check(r) == CASE r.chk = "robust" -> Verdict(r.shape, r.out, r.walk)
              [] r.chk = "crash" -> r.crash
              [] r.chk = "skip" -> "ok"
              [] OTHER -> "harness-unknown-chk"

ASSUME EvalAll(Check)
=============================================================================
