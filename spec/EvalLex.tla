------------------------------- MODULE EvalLex -------------------------------
(* Record-mode evaluation of "what was written can be read back" (C06). *)
EXTENDS EvalBase

\* {"chk":"lex","slot":S,"style":St,"ws":W,"arg":written argument as a string,"res":{"panic":B,"err":B},
\*  "readback":S,"rb_is_text":B (read back = the text as written, quotes and escapes included),
\*  "rb_is_body":B (= the text between the outer quotes, escapes unprocessed)}
CheckLex(r) ==
    IF r.res.panic THEN "panic"
    ELSE IF r.res.err THEN "legal-module-rejected"
    ELSE IF r.readback = r.arg THEN "ok"
    ELSE IF r.rb_is_text THEN "quotes-kept"
    ELSE IF r.rb_is_body THEN "escapes-not-processed"
    ELSE IF r.readback = "" THEN "argument-lost"
    ELSE "argument-altered"

\* {"chk":"order","what":kind,"want":[names],"got":[names]}  sibling definitions - and the statements of
\* one kind on a definition (revisions, musts, if-features, enums, bits, key and unique components,
\* leaf-list defaults) - keep their textual order
CheckOrder(r) == IF r.res.panic THEN "panic" ELSE IF r.res.err THEN "legal-module-rejected"
                 ELSE IF r.got = r.want THEN "ok"
                 ELSE IF r.what = "siblings" THEN "sibling-order-changed"
                 ELSE "statement-order-changed"

\* {"chk":"determinism","dumps":[canonical dump per load]}
CheckDet(r) == IF \A i \in DOMAIN r.dumps : r.dumps[i] = r.dumps[1] THEN "ok" ELSE "repeated-load-differs"

Check(r) == CASE r.chk = "lex" -> CheckLex(r)
              [] r.chk = "order" -> CheckOrder(r)
              [] r.chk = "determinism" -> CheckDet(r)
              [] r.chk = "skip" -> "ok"
              [] r.chk = "crash" -> (IF r.sig.kind = "determinism" THEN "ok"   \* a module that does not load at all is C14's subject
                                     ELSE r.crash)
              [] OTHER -> "harness-unknown-chk"

ASSUME EvalAll(Check)
=============================================================================
