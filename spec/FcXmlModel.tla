----------------------------- MODULE FcXmlModel -----------------------------
(***************************************************************************)
(* C19 on the model: over every tree reachable in the store state machine    *)
(*   - the canonical XML document is admitted by XmlDocCheck (the predicate  *)
(*     that judges the real writers)                                         *)
(*   - reading it back gives exactly the tree                                *)
(*   - and so does reading any interleaving of the root's children that      *)
(*     keeps the relative order of the elements of one list (RFC 7950 7.8.5) *)
(***************************************************************************)
EXTENDS FcEditModel, FcXml

DSseq == JsonDeserialize(IOEnv.SCHEMA)
Main == "M0"
NS == [ m \in {Main} |-> "urn:verif:m0" ]
Cfg == [enumids |-> FALSE, modules |-> {Main}, uno |-> {}, qualify |-> FALSE]

Root == El(Main, NS[Main], "", CanonKids(DS, DSseq, NS, T, << >>))

\* permutations of 1..n as sequences
Perms(n) == { f \in [1..n -> 1..n] : \A i, j \in 1..n : f[i] = f[j] => i = j }

\* keeps the relative order of same-named elements
OrderPreserving(kids, f) ==
    \A i, j \in DOMAIN kids : (i < j /\ kids[i].n = kids[j].n) =>
        (CHOOSE a \in DOMAIN kids : f[a] = i) < (CHOOSE b \in DOMAIN kids : f[b] = j)

\* XML has no rendering for a list without entries: it reads back as no list at all
Norm(t) == Without(t, { l \in DOMAIN t.ord : t.ord[l] = << >> })

Inv_XmlAdmitted == XmlDocCheck(DS, DSseq, NS, Main, Cfg, T, << >>, Root) = "ok"

Inv_XmlRoundTrip == ReadKids(DS, << >>, Root.k) = Norm(T)

Inv_XmlInterleaving ==
    LET kids == Root.k IN
    Len(kids) <= 4 =>
        \A f \in Perms(Len(kids)) : OrderPreserving(kids, f) =>
            ReadKids(DS, << >>, [ i \in DOMAIN kids |-> kids[f[i]] ]) = Norm(T)
=============================================================================
