------------------------------ MODULE IfFeature ------------------------------
(***************************************************************************)
(* if-feature expressions (C11; RFC 7950 7.20.2):                            *)
(*   expr   = term   [ "or"  expr ]                                          *)
(*   term   = factor [ "and" term ]                                          *)
(*   factor = "not" factor / "(" expr ")" / feature-name                     *)
(* over token sequences.  P*(toks, i, on) parse from position i and return    *)
(* [ok, next, val]: whether a phrase starts at i, where it ends, and its      *)
(* truth value when exactly the features in `on' are enabled.  Precedence     *)
(* (not > and > or) and grouping are the grammar's; nothing else is.          *)
(***************************************************************************)
EXTENDS Integers, Sequences, FiniteSets, TLC

Feats == {"a", "b", "c"}
Words == Feats \cup {"and", "or", "not", "(", ")"}

Fail == [ok |-> FALSE, next |-> 0, val |-> FALSE]

RECURSIVE PExpr(_, _, _)
RECURSIVE PTerm(_, _, _)
RECURSIVE PFactor(_, _, _)

PFactor(t, i, on) ==
    IF i > Len(t) THEN Fail
    ELSE IF t[i] = "not" THEN
         LET f == PFactor(t, i + 1, on) IN IF f.ok THEN [ok |-> TRUE, next |-> f.next, val |-> ~f.val] ELSE Fail
    ELSE IF t[i] = "(" THEN
         LET e == PExpr(t, i + 1, on) IN
         IF e.ok /\ e.next <= Len(t) /\ t[e.next] = ")" THEN [ok |-> TRUE, next |-> e.next + 1, val |-> e.val] ELSE Fail
    ELSE IF t[i] \in Feats THEN [ok |-> TRUE, next |-> i + 1, val |-> t[i] \in on]
    ELSE Fail

PTerm(t, i, on) ==
    LET f == PFactor(t, i, on) IN
    IF ~f.ok THEN Fail
    ELSE IF f.next <= Len(t) /\ t[f.next] = "and" THEN
         LET r == PTerm(t, f.next + 1, on) IN
         IF r.ok THEN [ok |-> TRUE, next |-> r.next, val |-> f.val /\ r.val] ELSE Fail
    ELSE f

PExpr(t, i, on) ==
    LET m == PTerm(t, i, on) IN
    IF ~m.ok THEN Fail
    ELSE IF m.next <= Len(t) /\ t[m.next] = "or" THEN
         LET r == PExpr(t, m.next + 1, on) IN
         IF r.ok THEN [ok |-> TRUE, next |-> r.next, val |-> m.val \/ r.val] ELSE Fail
    ELSE m

WellFormed(t) == LET e == PExpr(t, 1, {}) IN e.ok /\ e.next = Len(t) + 1
Eval(t, on) == PExpr(t, 1, on).val
=============================================================================
