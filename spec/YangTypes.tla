------------------------------ MODULE YangTypes ------------------------------
(***************************************************************************)
(* Membership of a value in a leaf's effective type (C05; RFC 7950 9.2.4,    *)
(* 9.4.4, 9.4.5, 9.6, 9.7, 9.10, 9.12).  A type descriptor is                *)
(*   [base, levels: <<[ranges, lens, pats], ...>>, members]                  *)
(* with one level per step of the typedef chain, as written.  A value         *)
(* belongs to the type iff it belongs to the base type and satisfies EVERY    *)
(* level: inside one alternative of the level's range (numbers) or length     *)
(* (strings, counted in characters), matching ALL of the level's patterns     *)
(* (invert-match: not matching).  "min" / "max" are the bounds of the base    *)
(* type (equivalent to the bounds of the parent type because every level      *)
(* must hold).  Numbers are points of the exact line of Values.               *)
(***************************************************************************)
EXTENDS Values

BoundIdx(fmt, b, isLo) ==
    IF b = "min" THEN (IF fmt = "decimal64" THEN 1 ELSE NumIdx[Lo[fmt]])
    ELSE IF b = "max" THEN (IF fmt = "decimal64" THEN Len(NumLine) ELSE NumIdx[Hi[fmt]])
    ELSE NumIdx[b]

AltHolds(fmt, alt, v) ==
    /\ BoundIdx(fmt, alt.lo, TRUE) <= NumIdx[v]
    /\ NumIdx[v] <= BoundIdx(fmt, alt.hi, FALSE)

RangeLevelOK(fmt, lvl, v) ==
    lvl.ranges = << >> \/ \E i \in DOMAIN lvl.ranges : AltHolds(fmt, lvl.ranges[i], v)

\* v: numeral (a point of NumLine)
NumAccepts(base, levels, v) ==
    /\ v \in NumPts
    /\ IF base = "decimal64" THEN TRUE ELSE (Integral(v) /\ InRange(base, v))
    /\ \A i \in DOMAIN levels : RangeLevelOK(base, levels[i], v)

\* lengths are small naturals (TLC integers); bounds are numerals of small naturals
NatOf(s) == CHOOSE n \in 0..300 : ToString(n) = s

\* min stands for 0, max for a length no string of the model has
LenAltHolds(alt, len) ==
    /\ CASE alt.lo = "min" -> TRUE [] alt.lo = "max" -> FALSE [] OTHER -> NatOf(alt.lo) <= len
    /\ CASE alt.hi = "max" -> TRUE [] alt.hi = "min" -> len = 0 [] OTHER -> len <= NatOf(alt.hi)

LenLevelOK(lvl, len) ==
    lvl.lens = << >> \/ \E i \in DOMAIN lvl.lens : LenAltHolds(lvl.lens[i], len)

\* len: number of characters; pm: for each level, for each pattern, whether the string
\* matches it (XSD-anchored match computed by the harness; the spec owns the combination)
StrAccepts(levels, len, pm) ==
    \A i \in DOMAIN levels :
        /\ LenLevelOK(levels[i], len)
        /\ \A j \in DOMAIN levels[i].pats : pm[i][j] = ~levels[i].pats[j].inv

\* one element x = [s: lexical form, len, pm, labels: <<bit names>>, mem: per union member [len, pm]]
\* against the leaf's descriptor n.t, enum / bit table n.enums and identities n.ids
ElemAccepts(n, x) ==
    LET b == n.t.base IN
    CASE b \in IntFmts \cup {"decimal64"} -> NumAccepts(b, n.t.levels, x.s)
      [] b = "string" -> StrAccepts(n.t.levels, x.len, x.pm)
      [] b = "enumeration" -> \E i \in DOMAIN n.enums : n.enums[i].l = x.s
      [] b = "bits" -> \A i \in DOMAIN x.labels : \E j \in DOMAIN n.enums : n.enums[j].l = x.labels[i]
      [] b = "identityref" -> \E i \in DOMAIN n.ids : n.ids[i] = x.s
      [] b = "boolean" -> x.s \in {"true", "false"}
      [] b = "union" ->
            \E m \in DOMAIN n.t.members :
               LET mt == n.t.members[m] IN
               IF mt.base \in IntFmts THEN x.num /\ NumAccepts(mt.base, mt.levels, x.s)
               ELSE IF mt.base = "string" THEN StrAccepts(mt.levels, x.len, x.mem[m].pm)
               ELSE FALSE
      [] OTHER -> TRUE

Accepts(n, xs) == \A i \in DOMAIN xs : ElemAccepts(n, xs[i])

-----------------------------------------------------------------------------
\* laws checked on the model (YangTypesModel): narrowing never accepts more
Narrower(base, levels, extra, v) ==
    NumAccepts(base, Append(levels, extra), v) => NumAccepts(base, levels, v)
=============================================================================
