------------------------------- MODULE YangLex -------------------------------
(***************************************************************************)
(* Quoting of statement arguments (C06; RFC 7950 6.1.3).  An ARGUMENT is a    *)
(* sequence of characters over an alphabet that contains every character with  *)
(* a meaning in the syntax; a TEXT is a sequence of characters as written in   *)
(* the module.  Render(style, s) writes s in one of the legal styles, Unquote  *)
(* reads a written argument back.  Law (checked on the model for every         *)
(* argument up to a length bound and every legal style): Unquote(Render) = id. *)
(*                                                                            *)
(* characters: "dq" (double quote) "sq" (single quote) "bs" (backslash) "nl"   *)
(* "tab" "sp" and the literal ones ";" "{" "}" "/" "*" "+" "n" "t" "a" "1" "e'"*)
(* (e' stands for a non-ASCII letter).                                         *)
(***************************************************************************)
EXTENDS Integers, Sequences, FiniteSets, TLC

Alphabet == {"dq", "sq", "bs", "nl", "tab", "sp", ";", "{", "}", "/", "*", "+", "n", "t", "a", "1", "e'"}

Styles == {"unq", "sq", "dq", "dq+dq", "sq+dq", "dq+sq"}

HasSub(s, a, b) == \E i \in 1..(Len(s) - 1) : s[i] = a /\ s[i+1] = b

\* unquoted: no white space, quotes, semicolon, braces, and nothing that opens a comment
UnqLegal(s) == /\ s # << >>
               /\ \A i \in DOMAIN s : s[i] \notin {"dq", "sq", "sp", "nl", "tab", ";", "{", "}"}
               /\ ~HasSub(s, "/", "/") /\ ~HasSub(s, "/", "*") /\ ~HasSub(s, "*", "/")
               /\ s # << "+" >>
SqLegal(s) == \A i \in DOMAIN s : s[i] # "sq"

\* inside double quotes: the four escapes of RFC 7950; line feed and tab are written escaped
DqBody(s) ==
    LET one(c) == CASE c = "dq" -> << "bs", "dq" >>
                    [] c = "bs" -> << "bs", "bs" >>
                    [] c = "nl" -> << "bs", "n" >>
                    [] c = "tab" -> << "bs", "t" >>
                    [] OTHER -> << c >>
        F[i \in 0..Len(s)] == IF i = 0 THEN << >> ELSE F[i-1] \o one(s[i])
    IN F[Len(s)]

Dq(s) == << "dq" >> \o DqBody(s) \o << "dq" >>
Sq(s) == << "sq" >> \o s \o << "sq" >>
Plus == << "sp", "+", "sp" >>

\* the split point of a concatenated rendering
Split(s) == (Len(s) + 1) \div 2
Left(s) == SubSeq(s, 1, Split(s))
Right(s) == SubSeq(s, Split(s) + 1, Len(s))

Legal(style, s) ==
    CASE style = "unq" -> UnqLegal(s)
      [] style = "sq" -> SqLegal(s)
      [] style = "dq" -> TRUE
      [] style = "dq+dq" -> TRUE
      [] style = "sq+dq" -> SqLegal(Left(s))
      [] style = "dq+sq" -> SqLegal(Right(s))

Render(style, s) ==
    CASE style = "unq" -> s
      [] style = "sq" -> Sq(s)
      [] style = "dq" -> Dq(s)
      [] style = "dq+dq" -> Dq(Left(s)) \o Plus \o Dq(Right(s))
      [] style = "sq+dq" -> Sq(Left(s)) \o Plus \o Dq(Right(s))
      [] style = "dq+sq" -> Dq(Left(s)) \o Plus \o Sq(Right(s))

\* reading a written argument: a sequence of quoted parts joined by "+", or one unquoted word
RECURSIVE UnDq(_)
UnDq(b) == IF b = << >> THEN << >>
           ELSE IF Head(b) = "bs" /\ Len(b) >= 2 THEN
                (CASE b[2] = "n" -> << "nl" >> [] b[2] = "t" -> << "tab" >>
                   [] b[2] = "dq" -> << "dq" >> [] b[2] = "bs" -> << "bs" >>
                   [] OTHER -> << "bs", b[2] >>) \o UnDq(SubSeq(b, 3, Len(b)))
           ELSE << Head(b) >> \o UnDq(Tail(b))

\* position of the quote that closes the string opened at position 1
CloseDq(t) == CHOOSE i \in 2..Len(t) : t[i] = "dq" /\
                 \* not escaped: an even number of backslashes before it
                 LET k == CHOOSE k \in 0..(i-2) : (\A j \in (i-k)..(i-1) : t[j] = "bs") /\ (i-k-1 = 1 \/ t[i-k-1] # "bs")
                 IN k % 2 = 0 /\ \A m \in 2..(i-1) :
                      ~(t[m] = "dq" /\ LET k2 == CHOOSE k2 \in 0..(m-2) : (\A j \in (m-k2)..(m-1) : t[j] = "bs") /\ (m-k2-1 = 1 \/ t[m-k2-1] # "bs") IN k2 % 2 = 0)
CloseSq(t) == CHOOSE i \in 2..Len(t) : t[i] = "sq" /\ \A m \in 2..(i-1) : t[m] # "sq"

RECURSIVE Unquote(_)
Unquote(t) ==
    IF t = << >> THEN << >>
    ELSE IF Head(t) = "dq" THEN
         LET c == CloseDq(t)
             rest == SubSeq(t, c + 1, Len(t))
         IN UnDq(SubSeq(t, 2, c - 1)) \o (IF rest = << >> THEN << >> ELSE Unquote(SubSeq(rest, Len(Plus) + 1, Len(rest))))
    ELSE IF Head(t) = "sq" THEN
         LET c == CloseSq(t)
             rest == SubSeq(t, c + 1, Len(t))
         IN SubSeq(t, 2, c - 1) \o (IF rest = << >> THEN << >> ELSE Unquote(SubSeq(rest, Len(Plus) + 1, Len(rest))))
    ELSE t
=============================================================================
