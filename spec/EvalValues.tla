----------------------------- MODULE EvalValues -----------------------------
(* Evaluates cmp / cmpvals / conv / lookup records against Values. *)
EXTENDS Values, EvalBase

\* {"chk":"cmp","fmt":F,"a":pt,"b":pt,"panic":BOOL,"cmp":-1|0|1,"eq":BOOL}
CheckCmp(r) ==
    IF ~(Known(r.fmt, r.a) /\ Known(r.fmt, r.b)) THEN "harness-unknown-point"
    ELSE IF r.panic THEN "panic"
    ELSE LET c == Cmp(r.fmt, r.a, r.b) IN
         IF Sgn(r.cmp) # c THEN
            (IF c = 0 THEN "equal-reported-unequal"
             ELSE IF r.cmp = 0 THEN "unequal-reported-equal" ELSE "order-reversed")
         ELSE IF r.eq # (c = 0) THEN "equal-disagrees-with-compare"
         ELSE "ok"

\* {"chk":"cmpvals","fmts":[F..],"a":[pt..],"b":[pt..],"panic":BOOL,"cmp":n,"eq":BOOL}
CheckCmpVals(r) ==
    IF r.panic THEN "panic"
    ELSE LET c == LexCmp(r.fmts, r.a, r.b) IN
         IF Sgn(r.cmp) # c THEN "tuple-order-not-lexicographic"
         ELSE IF r.eq # (c = 0) THEN "tuple-equal-disagrees"
         ELSE "ok"

\* {"chk":"conv","fmt":F,"kind":K,"pt":pt,"exact":BOOL (source kind denotes pt exactly and
\*   unambiguously),"panic":BOOL,"ok":BOOL,"val":numeral,"back":numeral}
\* ok=TRUE: conversion returned a value; val = numeral of the value (String()),
\* back = numeral obtained from Value() re-read.  An "inexact" source form (string with
\* spaces / explicit plus sign) may be rejected or accepted, but never changed.
\* decimal64 target: the value is any decimal; exact or error.  (The library stores
\* decimal64 as a binary float64, so 2^53+1 cannot be exact - that is for the code to
\* answer with an error, not with a neighbouring number.)
CheckConvDec(r) ==
    IF r.panic THEN "panic"
    ELSE IF ~(r.pt \in NumPts) THEN "harness-unknown-point"
    ELSE IF r.ok THEN
         (IF r.val # r.pt THEN "converted-to-different-number"
          ELSE IF r.back # r.pt THEN "readback-differs"
          ELSE "ok")
    ELSE "ok"   \* an error is always an admissible outcome of C10

CheckConvInt(r) ==
    IF r.fmt = "decimal64" THEN CheckConvDec(r) ELSE
    IF r.panic THEN "panic"
    ELSE IF ~(r.pt \in NumPts) THEN "harness-unknown-point"
    ELSE IF r.ok THEN
         (IF ~Integral(r.pt) THEN "accepted-non-integral"
          ELSE IF ~InRange(r.fmt, r.pt) THEN "accepted-out-of-range"
          ELSE IF r.val # r.pt THEN "converted-to-different-number"
          ELSE IF r.back # r.pt THEN "readback-differs"
          ELSE "ok")
    ELSE "ok"   \* an error is always an admissible outcome of C10

\* generic exact-or-error record for non-integer targets: the driver names the
\* denoted abstract value `want' (a string) and whether the target type contains it
\* {"chk":"convx","fmt":F,"kind":K,"member":BOOL,"exact":BOOL,"panic":BOOL,"ok":BOOL,"want":S,"val":S,"back":S}
CheckConvX(r) ==
    IF r.panic THEN "panic"
    ELSE IF r.ok THEN
         (IF ~r.member THEN "accepted-non-member"
          ELSE IF r.val # r.want THEN "converted-to-different-value"
          ELSE IF r.back # r.want THEN "readback-differs"
          ELSE "ok")
    ELSE "ok"

\* {"chk":"lookup","impl":I,"fmts":[F..],"keys":[[pt..]..],"find":[pt..],"panic":BOOL,
\*  "found":BOOL,"got":[pt..]}   keys are pairwise distinct (harness precondition, checked)
CheckLookup(r) ==
    LET present == \E i \in DOMAIN r.keys : r.keys[i] = r.find
        distinct == \A i, j \in DOMAIN r.keys : r.keys[i] = r.keys[j] => i = j
    IN IF ~distinct THEN "harness-duplicate-keys"
       ELSE IF r.panic THEN "panic"
       ELSE IF present /\ ~r.found THEN "existing-entry-not-found"
       ELSE IF ~present /\ r.found THEN "absent-key-found"
       ELSE IF r.found /\ r.got # r.find THEN "wrong-entry-found"
       ELSE "ok"

Check(r) == CASE r.chk = "cmp" -> CheckCmp(r)
              [] r.chk = "cmpvals" -> CheckCmpVals(r)
              [] r.chk = "conv" -> CheckConvInt(r)
              [] r.chk = "convx" -> CheckConvX(r)
              [] r.chk = "lookup" -> CheckLookup(r)
              [] OTHER -> "harness-unknown-chk"

ASSUME EvalAll(Check)
=============================================================================
