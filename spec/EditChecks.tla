----------------------------- MODULE EditChecks -----------------------------
(* Classification of observed edit calls and Find probes against FcEdit; shared by
   the evaluators of C03/C09/C18 (EvalEdit) and of the codecs' round trips. *)
EXTENDS FcEdit, EvalBase

\* {"chk":"edit","schema":..,"impl":..,"src":..,"ordered":BOOL,"pre":Tree,
\*  "op":{"k":..,"at":Path,"s":Tree},"res":{"ok":BOOL,"err":..},"post":Tree}
CheckEdit(DS, r) ==
    IF ~(WireOK(r.pre) /\ WireOK(r.op.s)) THEN
         (IF r.step = 0 THEN "harness-wire-duplicates" ELSE "ok")  \* corrupted by an earlier, reported step
    ELSE IF ~WireOK(r.post) THEN
         (IF r.res.err = "panic" THEN "panic" ELSE "duplicate-entries-in-store")
    ELSE LET T == TreeOf(r.pre)
             post == TreeOf(r.post)
             S == TreeOf(r.op.s)
             op == [k |-> r.op.k, at |-> r.op.at, s |-> S]
             \* order is observable for a list only if the target holds it in a slice and the
             \* source presents entries in a defined order
             uno == IF r.srcordered THEN UnorderedOf(r.post)
                    ELSE UnorderedOf(r.post) \cup DOMAIN S.ord
         IN IF ~WellFormed(DS, NormEmpty(T)) THEN "ok"  \* state already corrupted by an earlier, reported step
            ELSE IF r.res.err = "panic" THEN "panic"
            \* the entry point was found by Find: every list entry on the way to it is in the store
            ELSE IF \E i \in 1..Len(op.at) : IsEntry(SubSeq(op.at, 1, i)) /\ SubSeq(op.at, 1, i) \notin T.cont
                 THEN "edit-addressed-entry-not-in-store"
            \* a payload that names one list entry twice (same key, same content): inserting it must
            \* fail - the second entry finds the first; upserting it is the upsert of the payload
            ELSE IF r.op.dup /\ op.k = "insert" /\ r.res.ok THEN "payload-with-one-key-twice-inserted"
            ELSE IF r.op.dup /\ op.k = "insert" THEN "ok"
            ELSE LET c == CASE op.k \in {"upsert", "insert", "update"} ->
                               EditCheck(DS, uno, T, op, r.res, post)
                            [] op.k = "delete" -> DeleteCheck(UnorderedOf(r.post), T, op.at, r.res, post)
                            [] op.k = "replace" -> ReplaceCheck(DS, uno, T, op.at, S, r.res, post)
                            [] OTHER -> "harness-unknown-op"
                 IN IF c # "ok" THEN c
                    ELSE IF ~KeysUnique(post) THEN "duplicate-keys"
                    ELSE IF ~OneCase(DS, NormEmpty(post)) THEN "two-cases-hold-data"
                    ELSE IF ~WellFormed(DS, NormEmpty(post)) THEN "post-not-wellformed"
                    ELSE "ok"

\* after an operation: every container, list and entry the store holds is found under its
\* path (an entry under the key its key leaves hold), the deleted node is not
\* {"chk":"findall","tree":Tree,"present":[{"p":Path,"found":BOOL,"err":..,"key":[..]}],"gone":[...]}
CheckFindAll(DS, r) ==
    IF ~WireOK(r.tree) THEN "ok"   \* reported by the edit record of the same step
    ELSE LET T == TreeOf(r.tree) IN
         IF \E i \in DOMAIN r.present : r.present[i].err = "panic" THEN "panic"
         \* (whether a list without entries still "exists" is store specific: DESIGN 4.5)
         ELSE IF \E i \in DOMAIN r.present : r.present[i].p \in T.cont /\ ~r.present[i].found
                    /\ ~(r.present[i].p \in DOMAIN T.ord /\ T.ord[r.present[i].p] = << >>)
              THEN "existing-node-not-found"
         ELSE IF \E i \in DOMAIN r.present : IsEntry(r.present[i].p) /\ r.present[i].key # KeysOfEntry(r.present[i].p)
              THEN "entry-found-under-wrong-key"
         ELSE IF \E i \in DOMAIN r.gone : r.gone[i].found /\ r.gone[i].p \notin T.cont
              THEN "deleted-node-still-found"
         ELSE "ok"

=============================================================================
