------------------------------ MODULE EvalXml -------------------------------
(* Record-mode evaluation of XML writer output and XML round trips (C19). *)
EXTENDS FcXml, EditChecks

DSseq == JsonDeserialize(IOEnv.SCHEMA)
DS == TLCEval(IndexDS(DSseq))

\* {"chk":"xmldoc","writer":W,"module":M,"modules":[..],"ns":{module: namespace},"tree":Tree,"at":Path,
\*  "cfg":{"enumids":B},"err":cls,"doc":Element}
CheckXmlDoc(r) ==
    IF ~WireOK(r.tree) THEN "harness-wire-duplicates"
    ELSE LET T == TreeOf(r.tree)
             cfg == [enumids |-> r.cfg.enumids, modules |-> SeqToSet(r.modules), uno |-> UnorderedOf(r.tree),
                     qualify |-> FALSE]
         IN IF r.err = "panic" THEN "panic"
            ELSE IF r.err # "" THEN "write-failed"
            ELSE XmlDocCheck(DS, DSseq, r.ns, r.module, cfg, T, r.at, r.doc)

Check(r) == CASE r.chk = "xmldoc" -> CheckXmlDoc(r)
              [] r.chk = "edit" -> CheckEdit(DS, r)
              [] r.chk = "skip" -> "ok"
              [] OTHER -> "harness-unknown-chk"

ASSUME EvalAll(Check)
=============================================================================
