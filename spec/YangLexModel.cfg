SPECIFICATION Spec
CONSTANT MaxLen = 3
INVARIANT RoundTrip
INVARIANT UnquotedIsOneWord
