SPECIFICATION Spec
VIEW View
INVARIANT Inv_WellFormed
INVARIANT Inv_KeysUnique
INVARIANT Inv_OneCase
