------------------------------- MODULE FcJson -------------------------------
(***************************************************************************)
(* The JSON rendering of a data tree (C04 C15; RFC 7951 as freeconf reads   *)
(* it).  A DOCUMENT is a tree of nodes                                        *)
(*   [t |-> "obj", m |-> <<[k |-> name, v |-> node], ...>>]  members in order *)
(*   [t |-> "arr", e |-> <<node, ...>>]                                       *)
(*   [t |-> "str" | "num" | "bool", s |-> text]      [t |-> "null"]           *)
(* (all four fields t, m, e, s are always present on the wire).  The harness  *)
(* obtains it from the bytes the writer produced with the standard library's  *)
(* decoder (token stream, numbers as text, one value then EOF); a document    *)
(* that does not parse is [t |-> "invalid"].                                  *)
(*                                                                            *)
(* DocCheck says whether an observed document is a rendering of the subtree   *)
(* at `at' of tree T under writer configuration cfg = [qualify, enumids].     *)
(***************************************************************************)
EXTENDS FcEdit

Name(n) == n.sp[Len(n.sp)]
QName(n) == n.module \o ":" \o Name(n)

\* children of a container / entry at data path p that exist in T, in schema order
\* (DSseq is the schema as the ordered sequence of node records)
PresentKids(DSseq, T, p) ==
    LET sp == SPath(p)
        isKid(n) == Len(n.sp) = Len(sp) + 1 /\ IsPrefixOf(sp, n.sp)
        here(n) == IF n.kind \in {"leaf", "leaflist"} THEN ChildPath(p, n) \in DOMAIN T.leaf
                   ELSE ChildPath(p, n) \in T.cont
    IN SelectSeq(DSseq, LAMBDA n : isKid(n) /\ here(n))

\* the module that defines the parent of a node (the main module for top-level nodes)
ParentModule(DS, mainMod, n) ==
    IF Len(n.sp) = 1 THEN mainMod ELSE SNode(DS, SubSeq(n.sp, 1, Len(n.sp) - 1)).module

\* is k an admissible member name for schema node n
\*   docTop: the member sits at the top level of the document
\*   rootStart: the document was written from the module root
NameOK(DS, mainMod, cfg, n, k, docTop, rootStart) ==
    IF ~cfg.qualify THEN k = Name(n)
    ELSE IF docTop /\ ~rootStart THEN k \in {Name(n), QName(n)}  \* "top level" of a deeper start: either
    ELSE IF n.module # ParentModule(DS, mainMod, n) THEN k = QName(n)
    ELSE IF Len(n.sp) = 1 THEN k = QName(n)                  \* top level of the module
    ELSE k = Name(n)

EnumId(n, label) == (CHOOSE e \in SeqToSet(n.enums) : e.l = label).v

\* one scalar
ScalarOK(n, cfg, lex, d) ==
    CASE n.type \in {"int8", "int16", "int32", "uint8", "uint16", "uint32"} -> d.t = "num" /\ d.s = lex
      [] n.type \in {"int64", "uint64", "decimal64"} -> d.t \in {"num", "str"} /\ d.s = lex
      [] n.type = "boolean" -> d.t = "bool" /\ d.s = lex
      [] n.type = "empty" -> d.t = "arr" /\ Len(d.e) = 1 /\ d.e[1].t = "null"
      [] n.type = "enumeration" ->
            IF cfg.enumids THEN d.t = "num" /\ d.s = ToString(EnumId(n, lex))
            ELSE d.t = "str" /\ d.s = lex
      [] n.type = "union" -> d.t \in {"num", "str"} /\ d.s = lex
      [] n.type = "identityref" -> d.t = "str" /\ d.s \in {lex} \cup { m \o ":" \o lex : m \in cfg.modules }
      [] OTHER -> d.t = "str" /\ d.s = lex

LeafOK(n, cfg, v, d) ==
    IF n.kind = "leaf" THEN ScalarOK(n, cfg, v[1], d)
    ELSE /\ d.t = "arr" /\ Len(d.e) = Len(v)
         /\ \A i \in DOMAIN v : ScalarOK(n, cfg, v[i], d.e[i])

\* a member that reports the schema default of an unset leaf
IsDefaultExtra(DS, T, cfg, p, mem) ==
    \E n \in SChildren(DS, SPath(p)) :
        /\ n.kind \in {"leaf", "leaflist"} /\ n.dflt # << >>
        /\ ChildPath(p, n) \notin DOMAIN T.leaf
        /\ mem.k \in {Name(n), QName(n)}
        /\ LeafOK(n, cfg, n.dflt, mem.v)

RECURSIVE ObjCheck(_, _, _, _, _, _, _, _, _)
RECURSIVE MemberCheck(_, _, _, _, _, _, _, _)
RECURSIVE ListCheck(_, _, _, _, _, _, _)
\* the members of object d render the content of the container / entry at p
ObjCheck(DS, DSseq, mainMod, cfg, T, p, d, docTop, rootStart) ==
    IF d.t # "obj" THEN "container-not-an-object"
    ELSE LET want == PresentKids(DSseq, T, p)
             got == SelectSeq(d.m, LAMBDA mem : ~IsDefaultExtra(DS, T, cfg, p, mem))
         IN IF Len(got) < Len(want) THEN "member-missing"
            ELSE IF Len(got) > Len(want) THEN "member-not-in-data"
            ELSE IF \E i \in DOMAIN want :
                      ~NameOK(DS, mainMod, cfg, want[i], got[i].k, docTop, rootStart)
                 THEN (IF { got[i].k : i \in DOMAIN got } \subseteq
                             ({ Name(want[i]) : i \in DOMAIN want } \cup { QName(want[i]) : i \in DOMAIN want })
                          /\ \A i \in DOMAIN want : got[i].k \in {Name(want[i]), QName(want[i])}
                       THEN "member-name-qualification" ELSE
                       IF { got[i].k : i \in DOMAIN got } \subseteq
                             ({ Name(want[i]) : i \in DOMAIN want } \cup { QName(want[i]) : i \in DOMAIN want })
                       THEN "members-out-of-schema-order" ELSE "wrong-member-name")
            ELSE LET sub == [ i \in DOMAIN want |->
                                MemberCheck(DS, DSseq, mainMod, cfg, T, ChildPath(p, want[i]), want[i], got[i].v) ]
                 IN IF \E i \in DOMAIN sub : sub[i] # "ok"
                    THEN sub[CHOOSE i \in DOMAIN sub : sub[i] # "ok" /\ \A j \in 1..(i-1) : sub[j] = "ok"]
                    ELSE "ok"

\* value d of the member for schema node n at data path q
MemberCheck(DS, DSseq, mainMod, cfg, T, q, n, d) ==
    CASE n.kind \in {"leaf", "leaflist"} ->
            IF LeafOK(n, cfg, T.leaf[q], d) THEN "ok"
            ELSE IF n.kind = "leaflist" /\ d.t # "arr" THEN "leaf-list-not-an-array"
            ELSE "wrong-leaf-value"
      [] n.kind = "container" -> ObjCheck(DS, DSseq, mainMod, cfg, T, q, d, FALSE, FALSE)
      [] n.kind = "list" -> ListCheck(DS, DSseq, mainMod, cfg, T, q, d)

ListCheck(DS, DSseq, mainMod, cfg, T, q, d) ==
    IF d.t # "arr" THEN "list-not-an-array"
    ELSE LET keys == T.ord[q]
             entry(k) == Append(q, [n |-> LastOf(q).n, k |-> k])
         IN
         IF Len(d.e) # Len(keys) THEN "list-entry-count"
         ELSE IF q \in cfg.uno THEN
              \* the store keeps this list in a Go map: entries come in no defined order;
              \* every entry is rendered by exactly one element
              IF \A i \in DOMAIN keys :
                    Cardinality({ j \in DOMAIN d.e :
                        ObjCheck(DS, DSseq, mainMod, cfg, T, entry(keys[i]), d.e[j], FALSE, FALSE) = "ok" }) = 1
              THEN "ok" ELSE "list-entries-differ"
         ELSE LET sub == [ i \in DOMAIN keys |->
                             ObjCheck(DS, DSseq, mainMod, cfg, T, entry(keys[i]), d.e[i], FALSE, FALSE) ]
              IN IF \E i \in DOMAIN sub : sub[i] # "ok"
                 THEN (IF \A i \in DOMAIN sub : sub[i] \in {"ok", "wrong-leaf-value"} THEN "list-entry-order-or-value"
                       ELSE sub[CHOOSE i \in DOMAIN sub : sub[i] # "ok"])
                 ELSE "ok"

\* the whole document written from the selection `at' (kind: root, container, entry, list, leaf)
DocCheck(DS, DSseq, mainMod, cfg, T, at, d) ==
    IF d.t = "invalid" THEN "not-well-formed-json"
    ELSE IF at = << >> THEN ObjCheck(DS, DSseq, mainMod, cfg, T, at, d, TRUE, TRUE)
    ELSE LET n == SNode(DS, SPath(at)) IN
         IF IsEntry(at) \/ n.kind = "container" THEN ObjCheck(DS, DSseq, mainMod, cfg, T, at, d, TRUE, FALSE)
         ELSE \* a list node or a leaf: an object with exactly that one member
              IF d.t # "obj" \/ Len(d.m) # 1 THEN "start-selection-not-a-single-member-object"
              ELSE IF ~NameOK(DS, mainMod, cfg, n, d.m[1].k, TRUE, FALSE) THEN "wrong-member-name"
              ELSE MemberCheck(DS, DSseq, mainMod, cfg, T, at, n, d.m[1].v)

-----------------------------------------------------------------------------
(* The canonical document of a tree and its inverse, related on the model       *)
(* (FcJsonModel): DocCheck admits CanonDoc, and reading CanonDoc back gives T.  *)

ScalarDoc(n, cfg, lex) ==
    CASE n.type \in {"int8", "int16", "int32", "uint8", "uint16", "uint32", "int64", "uint64", "decimal64"} ->
            [t |-> "num", m |-> << >>, e |-> << >>, s |-> lex]
      [] n.type = "boolean" -> [t |-> "bool", m |-> << >>, e |-> << >>, s |-> lex]
      [] n.type = "empty" -> [t |-> "arr", m |-> << >>, e |-> << [t |-> "null", m |-> << >>, e |-> << >>, s |-> ""] >>, s |-> ""]
      [] n.type = "enumeration" /\ cfg.enumids ->
            [t |-> "num", m |-> << >>, e |-> << >>, s |-> ToString(EnumId(n, lex))]
      [] OTHER -> [t |-> "str", m |-> << >>, e |-> << >>, s |-> lex]

LeafDoc(n, cfg, v) ==
    IF n.kind = "leaf" THEN ScalarDoc(n, cfg, v[1])
    ELSE [t |-> "arr", m |-> << >>, e |-> [ i \in DOMAIN v |-> ScalarDoc(n, cfg, v[i]) ], s |-> ""]

RECURSIVE CanonObj(_, _, _, _, _, _)
CanonObj(DS, DSseq, mainMod, cfg, T, p) ==
    LET kids == PresentKids(DSseq, T, p)
        nameOf(n) == IF cfg.qualify /\ (Len(n.sp) = 1 \/ n.module # ParentModule(DS, mainMod, n))
                     THEN QName(n) ELSE Name(n)
        valOf(n) == LET q == ChildPath(p, n) IN
            CASE n.kind \in {"leaf", "leaflist"} -> LeafDoc(n, cfg, T.leaf[q])
              [] n.kind = "container" -> CanonObj(DS, DSseq, mainMod, cfg, T, q)
              [] n.kind = "list" ->
                    [t |-> "arr", m |-> << >>, s |-> "",
                     e |-> [ i \in DOMAIN T.ord[q] |->
                              CanonObj(DS, DSseq, mainMod, cfg, T, Append(q, [n |-> LastOf(q).n, k |-> T.ord[q][i]])) ]]
    IN [t |-> "obj", e |-> << >>, s |-> "",
        m |-> [ i \in DOMAIN kids |-> [k |-> nameOf(kids[i]), v |-> valOf(kids[i])] ]]

\* reading a document back (what a schema-directed reader makes of it)
UnionTrees(a, b) == [leaf |-> a.leaf @@ b.leaf, cont |-> a.cont \cup b.cont, ord |-> a.ord @@ b.ord]

RECURSIVE FoldTrees(_)
FoldTrees(seq) == IF seq = << >> THEN EmptyTree ELSE UnionTrees(Head(seq), FoldTrees(Tail(seq)))

ScalarLex(n, cfg, d) ==
    IF n.type = "empty" THEN ""
    ELSE IF n.type = "enumeration" /\ cfg.enumids
         THEN (CHOOSE e \in SeqToSet(n.enums) : ToString(e.v) = d.s).l
    ELSE d.s

RECURSIVE ReadObj(_, _, _, _)
ReadObj(DS, cfg, p, d) ==
    LET kidOf(k) == CHOOSE n \in SChildren(DS, SPath(p)) : k \in {Name(n), QName(n)}
        part(mem) ==
            LET n == kidOf(mem.k)
                q == ChildPath(p, n)
            IN CASE n.kind = "leaf" -> [leaf |-> (q :> << ScalarLex(n, cfg, mem.v) >>), cont |-> {}, ord |-> << >>]
                 [] n.kind = "leaflist" ->
                       [leaf |-> (q :> [ i \in DOMAIN mem.v.e |-> ScalarLex(n, cfg, mem.v.e[i]) ]), cont |-> {}, ord |-> << >>]
                 [] n.kind = "container" ->
                       UnionTrees([leaf |-> << >>, cont |-> {q}, ord |-> << >>], ReadObj(DS, cfg, q, mem.v))
                 [] n.kind = "list" ->
                       LET keyOf(ed) == [ i \in DOMAIN n.keys |->
                                  LET kn == SNode(DS, Append(n.sp, n.keys[i]))
                                      km == CHOOSE mm \in SeqToSet(ed.m) : mm.k \in {Name(kn), QName(kn)}
                                  IN ScalarLex(kn, cfg, km.v) ]
                           ents == [ i \in DOMAIN mem.v.e |->
                                      LET ep == Append(q, [n |-> LastOf(q).n, k |-> keyOf(mem.v.e[i])])
                                      IN UnionTrees([leaf |-> << >>, cont |-> {ep}, ord |-> << >>],
                                                    ReadObj(DS, cfg, ep, mem.v.e[i])) ]
                       IN UnionTrees([leaf |-> << >>, cont |-> {q},
                                      ord |-> (q :> [ i \in DOMAIN mem.v.e |-> keyOf(mem.v.e[i]) ])],
                                     FoldTrees(ents))
    IN FoldTrees([ i \in DOMAIN d.m |-> part(d.m[i]) ])
=============================================================================
