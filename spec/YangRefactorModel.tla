-------------------------- MODULE YangRefactorModel ---------------------------
(* Instance of the refactoring machine over the committed seed module sets;     *)
(* when EMIT is set every distinct reachable module set is printed for the      *)
(* harness to render and load.                                                  *)
EXTENDS YangRefactor, Json, IOUtils

SeedSeq == JsonDeserialize("yangseeds.json")
SeedSet == { SeedSeq[i] : i \in DOMAIN SeedSeq }

FeatureSet == {"f1"}

\* side effect only: one line per state
Emit == IF "EMIT" \in DOMAIN IOEnv THEN PrintT(<< "@@MS", ToJson(ms) >>) ELSE TRUE
=============================================================================
