---------------------------- MODULE RobustModel -----------------------------
(* The contract as a state machine: a store with data, requests of every shape, *)
(* outcomes restricted to what the contract admits; invariants: never in a      *)
(* crash state, stored data readable and unchanged after a rejected request.    *)
EXTENDS Robust

Shapes == {"valid", "truncate", "delete", "dup", "subst", "shape-mismatch", "cycle", "opener-fault", "pathological"}

VARIABLES stored, phase, req, out
vars == << stored, phase, req, out >>

Init == stored = 1 /\ phase = "idle" /\ req = "valid" /\ out = "result"

Request == /\ phase = "idle" /\ \E s \in Shapes : req' = s
           /\ phase' = "pending" /\ UNCHANGED << stored, out >>

\* the admitted outcomes: an invalid request fails; a failing request stores nothing
Answer == /\ phase = "pending"
          /\ \E o \in Outcomes :
                /\ (req \in MustFail => o = "error")
                /\ out' = o
                /\ stored' = IF o = "result" /\ req = "valid" THEN stored + 1 ELSE stored
          /\ stored < 3
          /\ phase' = "answered" /\ UNCHANGED req

Reread == phase = "answered" /\ phase' = "idle" /\ UNCHANGED << stored, req, out >>

Next == Request \/ Answer \/ Reread
Spec == Init /\ [][Next]_vars

NeverCrash == out \notin Crashes
VerdictOK == phase = "answered" => Verdict(req, out, "ok") = "ok"
StoredReadable == stored >= 1
=============================================================================
