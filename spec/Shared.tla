------------------------------- MODULE Shared --------------------------------
(***************************************************************************)
(* Concurrent use of one compiled module (C20).                              *)
(*                                                                           *)
(* Goroutines run PROGRAMS (sequences of operations).  An operation is one   *)
(* public call: "load" (parse + compile a module), "schema" (export the      *)
(* compiled module as data), "export" / "xml" (serialise the goroutine's own *)
(* tree), "upsert" (edit it), "find" (navigate with query parameters).       *)
(* Start(g) and End(g) are the two steps of an operation; between them it    *)
(* touches LOCATIONS of three classes:                                       *)
(*   "global"  process-wide variables of the library                         *)
(*   "schema"  the compiled module every browser shares                      *)
(*   "browser" a browser object that several goroutines ask for selections   *)
(*   "own"     what the operation creates itself, and its goroutine's tree   *)
(* The DESIGN is the table Design: loading touches only what it creates;     *)
(* every other operation reads the schema and writes only what it owns.      *)
(* Two operations of different goroutines RACE when both are between Start   *)
(* and End, touch the same shared location, and one of them writes (the      *)
(* harness orders End(a) before Start(b) with a channel, which is a          *)
(* happens-before edge; overlapping operations have none).                   *)
(* An operation's RESULT is a function of its kind and of the generation of  *)
(* the schema it read; the generation changes only when someone writes the   *)
(* schema, so under Design every result equals the result of a run alone.    *)
(***************************************************************************)
EXTENDS Integers, Sequences, FiniteSets, TLC

Kinds == {"load", "schema", "export", "xml", "upsert", "find", "sexport"}

\* "sexport" serialises a tree of its own obtained from ONE browser object that all goroutines use
\* (a server keeps one browser per module; its source hands every request a fresh root node)
Design(kind) ==
    IF kind = "load" THEN { [loc |-> "own", mode |-> "w"] }
    ELSE IF kind = "sexport" THEN { [loc |-> "schema", mode |-> "r"], [loc |-> "browser", mode |-> "r"], [loc |-> "own", mode |-> "w"] }
    ELSE { [loc |-> "schema", mode |-> "r"], [loc |-> "own", mode |-> "w"] }

\* the pinned commit: every `uses' statement parsed increments a package variable
Pinned(kind) ==
    IF kind = "load" THEN { [loc |-> "own", mode |-> "w"], [loc |-> "global", mode |-> "w"] }
    ELSE Design(kind)

\* a lazily filled cache inside the shared module would look like this
LazyCache(kind) ==
    IF kind = "find" THEN Design(kind) \cup { [loc |-> "schema", mode |-> "w"] } ELSE Design(kind)

IsShared(loc) == loc \in {"global", "schema", "browser"}

Conflict(A(_), k1, k2) ==
    \E a \in A(k1), b \in A(k2) : a.loc = b.loc /\ IsShared(a.loc) /\ (a.mode = "w" \/ b.mode = "w")

WritesSchema(A(_), k) == [loc |-> "schema", mode |-> "w"] \in A(k)

-----------------------------------------------------------------------------
(* Walking an observed (or generated) schedule: a sequence of events          *)
(* [g |-> goroutine, e |-> "start" | "end"], with the programs progs[g].       *)
(* State: pc[g] next operation, run[g] whether one is in progress.            *)

Cur(progs, pc, g) == progs[g][pc[g]]

RECURSIVE WalkLegal(_, _, _, _, _)
WalkLegal(progs, sched, i, pc, run) ==
    IF i > Len(sched) THEN \A g \in DOMAIN progs : ~run[g] /\ pc[g] = Len(progs[g]) + 1
    ELSE LET ev == sched[i]  g == ev.g IN
         /\ g \in DOMAIN progs
         /\ IF ev.e = "start"
            THEN /\ ~run[g] /\ pc[g] <= Len(progs[g])
                 /\ WalkLegal(progs, sched, i + 1, pc, [run EXCEPT ![g] = TRUE])
            ELSE /\ run[g]
                 /\ WalkLegal(progs, sched, i + 1, [pc EXCEPT ![g] = @ + 1], [run EXCEPT ![g] = FALSE])

Legal(progs, sched) ==
    WalkLegal(progs, sched, 1, [g \in DOMAIN progs |-> 1], [g \in DOMAIN progs |-> FALSE])

\* the pairs of operations <<g, i, h, j>> that overlap in the schedule and conflict under A
RECURSIVE WalkRaces(_, _, _, _, _, _)
WalkRaces(A(_), progs, sched, i, pc, run) ==
    IF i > Len(sched) THEN {}
    ELSE LET ev == sched[i]  g == ev.g IN
         IF ev.e = "start"
         THEN { <<g, pc[g], h, pc[h]>> : h \in { h \in DOMAIN progs : h # g /\ run[h]
                                                   /\ Conflict(A, Cur(progs, pc, g), Cur(progs, pc, h)) } }
              \cup WalkRaces(A, progs, sched, i + 1, pc, [run EXCEPT ![g] = TRUE])
         ELSE WalkRaces(A, progs, sched, i + 1, [pc EXCEPT ![g] = @ + 1], [run EXCEPT ![g] = FALSE])

Races(A(_), progs, sched) ==
    WalkRaces(A, progs, sched, 1, [g \in DOMAIN progs |-> 1], [g \in DOMAIN progs |-> FALSE])

\* verdict for one observed run: the schedule that was executed, the race reports of the
\* detector (any number), whether each operation's result equalled its result alone
Verdict(progs, sched, nraces, same, crash) ==
    IF crash # "" THEN crash
    ELSE IF ~Legal(progs, sched) THEN "harness-schedule-not-a-behaviour"
    ELSE IF nraces > 0 /\ Races(Design, progs, sched) = {} THEN "data-race"
    ELSE IF \E k \in DOMAIN same : ~same[k] THEN "result-differs-from-run-alone"
    ELSE "ok"
=============================================================================
