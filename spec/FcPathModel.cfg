SPECIFICATION Spec
INVARIANT RoundTrip
INVARIANT TrailingSlash
INVARIANT StrictlyEncoded
