----------------------------- MODULE EvalMeaning ------------------------------
(* Record-mode evaluation of compiled schemas against Meaning (C01). *)
EXTENDS YangMeaning, EvalBase

\* {"chk":"meaning","ms":{...},"on":[features],"err":"", "got":[nodes],
\*  "shared":[paths], "parentlink":[paths], "noindex":[paths]}
Check(r) ==
    CASE r.chk = "meaning" ->
            IF r.err # "" THEN "well-formed-module-set-rejected"
            ELSE LET d == Diff(Meaning(r.ms, "m", { r.on[i] : i \in DOMAIN r.on }), r.got, FALSE) IN
                 IF d # "ok" THEN d
                 ELSE IF r.shared # << >> THEN "copy-of-grouping-shared-between-uses"
                 ELSE IF r.parentlink # << >> THEN "parent-link-wrong"
                 ELSE IF r.noindex # << >> THEN "node-not-found-by-name"
                 ELSE "ok"
      [] OTHER -> "harness-unknown-chk"

ASSUME EvalAll(Check)
=============================================================================
