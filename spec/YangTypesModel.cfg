SPECIFICATION Spec
CONSTANT Base = "int8"
CONSTANT Bounds = {"-128", "-1", "0", "100", "127"}
CONSTANT Cands = {"-129", "-128", "-127", "-2", "-1", "0", "0.5", "1", "99", "100", "101", "126", "127", "128"}
INVARIANT Monotone
INVARIANT Conjunction
INVARIANT MinMaxAreTypeBounds
