----------------------------- MODULE EvalAccept -----------------------------
(* Record-mode evaluation of leaf writes against the effective type (C05). *)
EXTENDS YangTypes, FcTree, EvalBase

DS == TLCEval(IndexDS(JsonDeserialize(IOEnv.SCHEMA)))

\* {"chk":"accept","leaf":[names],"path":P,"xs":[elem..],"vs":[lex..],"res":{ok,err},"pre":[lex..],"stored":[lex..]}
CheckAccept(r) ==
    LET n == SNode(DS, r.leaf)
        acc == Accepts(n, r.xs)
    IN IF r.res.err = "panic" THEN "panic"
       ELSE IF acc /\ ~r.res.ok THEN "member-of-type-rejected"
       ELSE IF ~acc /\ r.res.ok THEN "non-member-accepted"
       ELSE IF ~r.res.ok /\ r.stored # r.pre THEN "rejected-write-changed-store"
       ELSE IF r.res.ok /\ r.stored # r.vs THEN "accepted-write-stored-other-value"
       ELSE "ok"

Check(r) == CASE r.chk = "accept" -> CheckAccept(r)
              [] r.chk = "skip" -> "ok"
              [] OTHER -> "harness-unknown-chk"

ASSUME EvalAll(Check)
=============================================================================
