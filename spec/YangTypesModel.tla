--------------------------- MODULE YangTypesModel ---------------------------
(***************************************************************************)
(* C05 on the model: restriction expressions are built level by level (a     *)
(* state is a typedef chain of up to 3 levels over a base integer type, each  *)
(* level one or two alternatives with bounds from a boundary set incl. min /  *)
(* max); for every chain and every candidate point of the line:               *)
(*   - adding a level never accepts more (monotone)                           *)
(*   - acceptance = conjunction over levels of "inside one alternative"       *)
(*   - min / max behave as the base type's bounds                             *)
(***************************************************************************)
EXTENDS YangTypes

CONSTANTS Base, Bounds, Cands

VARIABLE levels
vars == << levels >>

Alts == { [lo |-> a, hi |-> b] : a \in Bounds \cup {"min"}, b \in Bounds \cup {"max"} }
WellFormedAlt(alt) == BoundIdx(Base, alt.lo, TRUE) <= BoundIdx(Base, alt.hi, FALSE)

LevelChoices == { [ranges |-> << a >>, lens |-> << >>, pats |-> << >>] : a \in { x \in Alts : WellFormedAlt(x) } }
                \cup { [ranges |-> << a, b >>, lens |-> << >>, pats |-> << >>] :
                        a \in { x \in Alts : WellFormedAlt(x) /\ x.lo = "min" }, b \in { x \in Alts : WellFormedAlt(x) /\ x.hi = "max" } }

Init == levels = << >>
AddLevel == Len(levels) < 2 /\ \E l \in LevelChoices : levels' = Append(levels, l)
Next == AddLevel
Spec == Init /\ [][Next]_vars

Monotone == \A v \in Cands : \A i \in 1..Len(levels) :
    NumAccepts(Base, levels, v) => NumAccepts(Base, SubSeq(levels, 1, i - 1), v)

Conjunction == \A v \in Cands :
    NumAccepts(Base, levels, v) <=>
        (InRange(Base, v) /\ Integral(v) /\ \A i \in DOMAIN levels : RangeLevelOK(Base, levels[i], v))

MinMaxAreTypeBounds == \A v \in Cands :
    InRange(Base, v) /\ Integral(v) =>
        NumAccepts(Base, << [ranges |-> << [lo |-> "min", hi |-> "max"] >>, lens |-> << >>, pats |-> << >>] >>, v)
=============================================================================
