------------------------------- MODULE FcRead -------------------------------
(***************************************************************************)
(* Constrained reads (C07; `when' visibility of C16 is added by FcWhen).     *)
(* A read of the selection `at' under query parameters P returns a PROJECTION *)
(* of the subtree at `at':                                                    *)
(*   content   "" | "all" | "config" | "nonconfig"  keeps (non-)config LEAVES *)
(*   depth     0 (absent) | N >= 1   nodes at most N levels below `at'; a     *)
(*             list and its entries count as one level                        *)
(*   fields    set of name sequences relative to `at' (denormalised           *)
(*             alternatives): the named nodes, everything below them and the  *)
(*             ancestors leading to them                                      *)
(*   xfields   likewise: everything but the named nodes and what is below     *)
(*   trim      with-defaults=trim: leaves whose value equals their default    *)
(*             are dropped                                                    *)
(*   range     [on, sel, lo, hi]: rows lo..hi of every list whose path        *)
(*             relative to `at' is sel (hi = -1: open end); whether hi is     *)
(*             inclusive is a parameter `incl' of the operators (neither the  *)
(*             property nor the documentation says; one reading per run)      *)
(*   maxnode   0 (absent) | N: the unchanged result, or an error when more    *)
(*             than N containers would be visited                             *)
(* Combination = intersection.  The data is never modified.                   *)
(***************************************************************************)
EXTENDS FcEdit

RelNames(at, p) == SubSeq(SPath(p), SDepth(at) + 1, SDepth(p))
Level(at, p) == SDepth(p) - SDepth(at)

Named(F, at, p) == \E f \in F : IsPrefixOf(f, RelNames(at, p))
LeadsTo(F, at, p) == \E f \in F : IsStrictPrefixOf(RelNames(at, p), f)

\* 0-based row of an entry in its list
RowOf(T, e) == (CHOOSE i \in DOMAIN T.ord[FrontOf(e)] : T.ord[FrontOf(e)][i] = KeysOfEntry(e)) - 1

RowOK(P, incl, row) ==
    /\ row >= P.range.lo
    /\ \/ P.range.hi = -1
       \/ (IF incl THEN row <= P.range.hi ELSE row < P.range.hi)

\* every list entry on the way to p that belongs to a selected list lies in the window
InWindow(T, at, P, incl, p) ==
    ~P.range.on \/
    \A i \in (Len(at) + 1)..Len(p) :
        LET e == SubSeq(p, 1, i) IN
        (IsEntry(e) /\ RelNames(at, FrontOf(e)) = P.range.sel)
            => RowOK(P, incl, RowOf(T, e))

\* rules shared by leaves and containers (everything except content, trim and the
\* fields ancestor rule)
KeepCommon(T, at, P, incl, p) ==
    /\ Under(at, p) /\ p # at
    /\ (P.depth = 0 \/ Level(at, p) <= P.depth)
    /\ ~Named(P.xfields, at, p)
    /\ InWindow(T, at, P, incl, p)

ContentOK(DS, P, p) ==
    CASE P.content = "config" -> SNode(DS, SPath(p)).config
      [] P.content = "nonconfig" -> ~SNode(DS, SPath(p)).config
      [] OTHER -> TRUE

KeepLeaf(DS, T, at, P, incl, p) ==
    /\ KeepCommon(T, at, P, incl, p)
    /\ (P.fields = {} \/ Named(P.fields, at, p))
    /\ ContentOK(DS, P, p)

Trimmed(DS, T, P, p) ==
    P.trim /\ SNode(DS, SPath(p)).dflt # << >> /\ T.leaf[p] = SNode(DS, SPath(p)).dflt

KeptLeaves(DS, T, at, P, incl) ==
    { p \in DOMAIN T.leaf : KeepLeaf(DS, T, at, P, incl, p) /\ ~Trimmed(DS, T, P, p) }

KeptConts(DS, T, at, P, incl) ==
    { c \in T.cont : /\ KeepCommon(T, at, P, incl, c)
                     /\ (P.fields = {} \/ Named(P.fields, at, c) \/ LeadsTo(P.fields, at, c)) }

AncestorsWithin(at, p) == { SubSeq(p, 1, i) : i \in (Len(at) + 1)..(Len(p) - 1) }

\* containers every admissible result holds / may hold
ReqConts(DS, T, at, P, incl) ==
    IF P.content \in {"", "all"} THEN KeptConts(DS, T, at, P, incl)
    ELSE UNION { AncestorsWithin(at, p) : p \in KeptLeaves(DS, T, at, P, incl) }

\* the number of containers (lists count once, entries do not) the read visits lies between
\* the existing ones and every child the schema allows below a visited node
ExistingNodes(DS, T, at, P, incl) ==
    Cardinality({ c \in KeptConts(DS, T, at, P, incl) : ~IsEntry(c) })

PossibleNodes(DS, T, at, P, incl) ==
    LET visited == { at } \cup { c \in KeptConts(DS, T, at, P, incl) :
                                    IsEntry(c) \/ KindOf(DS, c) = "container" }
    IN Cardinality(UNION { { <<v, n.sp>> : n \in { n \in SChildren(DS, SPath(v)) : n.kind \in {"container", "list"} } }
                           : v \in visited })

\* class of disagreement for an observed read: res = [ok, err], R = the tree that was
\* returned (absolute paths, ancestors of `at' not included)
ReadCheck(DS, T, at, P, incl, res, R) ==
    LET leaves == KeptLeaves(DS, T, at, P, incl)
        req == ReqConts(DS, T, at, P, incl)
        opt == KeptConts(DS, T, at, P, incl)
        tooMany == P.maxnode > 0 /\ ExistingNodes(DS, T, at, P, incl) > P.maxnode
        surelyFits == P.maxnode = 0 \/ PossibleNodes(DS, T, at, P, incl) <= P.maxnode
        Rl == { p \in DOMAIN R.leaf : p # at }
        Rc == (R.cont \ { at }) \ AncestorsWithin(<< >>, at)
        dfltOK(p) == /\ p \notin DOMAIN T.leaf /\ ~P.trim
                     /\ SNode(DS, SPath(p)).dflt # << >> /\ R.leaf[p] = SNode(DS, SPath(p)).dflt
                     /\ KeepLeaf(DS, T, at, P, incl, p)
                     /\ (Len(p) = 1 \/ FrontOf(p) \in T.cont)
    IN IF tooMany /\ res.ok THEN "node-limit-not-enforced"
       ELSE IF ~res.ok /\ surelyFits THEN "valid-read-rejected"
       ELSE IF ~res.ok THEN "ok"
       ELSE IF \E p \in leaves : p \notin Rl THEN "leaf-missing-from-read"
       ELSE IF \E p \in leaves : R.leaf[p] # T.leaf[p] THEN "wrong-value-read"
       ELSE IF \E p \in Rl \ leaves : ~dfltOK(p) THEN
            (IF \E p \in Rl \ leaves : p \notin DOMAIN T.leaf THEN "leaf-not-in-data-read"
             ELSE "leaf-outside-projection-read")
       ELSE IF \E c \in req : c \notin Rc THEN "node-missing-from-read"
       ELSE IF \E c \in Rc : c \notin opt THEN
            (IF \E c \in Rc : c \notin T.cont THEN "node-not-in-data-read" ELSE "node-outside-projection-read")
       ELSE "ok"
=============================================================================
