SPECIFICATION Spec
VIEW View
INVARIANT Inv_ProjectionWithinFull
INVARIANT Inv_Intersection
INVARIANT Inv_CanonicalAdmitted
