------------------------------ MODULE EvalBase ------------------------------
(***************************************************************************)
(* Record-mode trace evaluation (DESIGN 3.2).  A trace is an NDJSON file;  *)
(* every record is one observed public call of the real implementation.    *)
(* A family module defines Check(rec) returning "ok" or a short class name  *)
(* saying why the record is not a behaviour the specification allows.  A    *)
(* disallowed record does not stop evaluation: it is printed and the rest   *)
(* of the trace is still checked.                                           *)
(***************************************************************************)
EXTENDS TLC, Sequences, Json, IOUtils

Trace == ndJsonDeserialize(IOEnv.TRACE)

Has(r, f) == f \in DOMAIN r

EvalAll(Check(_)) ==
    /\ PrintT(<<"@@N", Len(Trace)>>)
    /\ \A i \in DOMAIN Trace :
         LET c == Check(Trace[i])
         IN IF c = "ok" THEN TRUE ELSE PrintT(<<"@@BAD", i, c>>)
=============================================================================
