SPECIFICATION Spec
VIEW View
INVARIANT Inv_WellFormed
INVARIANT Inv_JsonAdmitted
INVARIANT Inv_JsonRoundTrip
