----------------------------- MODULE YangMeaning ------------------------------
(***************************************************************************)
(* What a set of YANG modules MEANS as a schema tree (C01; RFC 7950 7.12,    *)
(* 7.13, 7.17, 7.1.5, 7.1.6, 7.21.1, 7.20.2).                                 *)
(*                                                                           *)
(* A STATEMENT is a record                                                    *)
(*   [k, n, cfg, mand, dflt, desc, iff, keys, c, gs, ref, aug]                *)
(* k: "container" "list" "leaf" "leaflist" "choice" "case" "uses"             *)
(* n: name;  ref0: [p, g] the grouping a uses refers to (p = "" no prefix)    *)
(* cfg, mand: "" (not stated) | "true" | "false";  dflt, desc: "" or text     *)
(* iff: "" or a feature name;  keys: sequence of leaf names (list)            *)
(* c: child statements;  gs: groupings defined inside this statement          *)
(* ref: refines  [path, attr, val]  (uses);  aug: augments [path, c]  (uses)  *)
(* ty: the type statement of a leaf [p (prefix or ""), n (built-in or typedef   *)
(* name), rng ("" or the range text), en (enums [l, v], v = -1: not stated)];  *)
(* units;  tds: typedefs [n, ty, dflt, units] defined inside the statement;    *)
(* ty.base: [p, n] the base identity of an identityref ("" otherwise);         *)
(* et: filled in by Expand with the effective type (C02).  A module also has   *)
(* ids: identities [n, bases ([p, n] each)].                                   *)
(* A GROUPING is [n, c, gs, tds].  A MODULE is                                *)
(*   [name, prefix, sub (TRUE for a submodule), gs, tds, body, augs (module-  *)
(*    level augments [path, c], path absolute), includes (names), imports     *)
(*    ([m, p]))].                                                             *)
(* A MODULE SET is a function name -> module; MEANING is taken of one main    *)
(* module under a set of enabled features.                                    *)
(*                                                                           *)
(* The MEANING is a sequence of NODES [k, n, cfg (BOOLEAN), mand, dflt, desc, *)
(* keys, c]: every uses replaced by the grouping's statements (looked up in   *)
(* the lexical scope of the uses: enclosing statements' groupings inside out, *)
(* the module's - with its submodules' - groupings, or the imported module's  *)
(* by prefix; the grouping's own statements are expanded in the scope of its  *)
(* DEFINITION), refines then augments of the uses applied to that private     *)
(* copy; statements whose feature is off removed; submodule bodies appended   *)
(* after the module's own; module-level augments (the module's, then its      *)
(* submodules') appended to their targets in that order; a choice target      *)
(* wraps a non-case statement in a case of the same name; config inherited    *)
(* from the nearest ancestor that states it (top: true).                      *)
(***************************************************************************)
EXTENDS Integers, Sequences, FiniteSets, TLC

NoBase == [p |-> "", n |-> ""]
NoType == [p |-> "", n |-> "", rng |-> "", len |-> "", en |-> << >>, base |-> NoBase, mem |-> << >>, path |-> << >>]
NoEt == [base |-> "", rngs |-> << >>, lens |-> << >>, en |-> << >>, ids |-> {}, mems |-> << >>, path |-> << >>, tgt |-> ""]

St(k, n) == [k |-> k, n |-> n, ref0 |-> [p |-> "", g |-> ""], cfg |-> "", mand |-> "", dflt |-> "", desc |-> "", iff |-> "",
             keys |-> << >>, c |-> << >>, gs |-> << >>, ref |-> << >>, aug |-> << >>,
             ty |-> NoType, units |-> "", tds |-> << >>, et |-> NoEt]

Builtins == {"bits", "union", "leafref", "identityref", "binary", "string", "int8", "int16", "int32", "int64", "uint8", "uint16", "uint32", "uint64", "boolean", "enumeration", "decimal64"}

RECURSIVE Flatten(_)
Flatten(ss) == IF ss = << >> THEN << >> ELSE Head(ss) \o Flatten(Tail(ss))

IndexOfName(seq, name) ==
    IF \E i \in DOMAIN seq : seq[i].n = name THEN CHOOSE i \in DOMAIN seq : seq[i].n = name /\ \A j \in 1..(i-1) : seq[j].n # name
    ELSE 0

-----------------------------------------------------------------------------
(* lexical scope: a sequence of grouping sequences, innermost first; the last *)
(* element is the module level (module + submodules)                          *)

\* a reference is "g" or <<prefix, g>> rendered as record [p, g]; p = "" for local
\* ENV: [ms, mod (name of the module the text is in)]

\* the module level of the scope: what the module and its submodules define together
ModuleLevel(ms, name) ==
    LET m == ms[name]
        owner == IF m.sub THEN m.belongs ELSE name
        RECURSIVE SubGs(_)
        SubGs(names) == IF names = << >> THEN << >> ELSE ms[Head(names)].gs \o SubGs(ms[Head(names)].includes) \o SubGs(Tail(names))
        RECURSIVE SubTds(_)
        SubTds(names) == IF names = << >> THEN << >> ELSE ms[Head(names)].tds \o SubTds(ms[Head(names)].includes) \o SubTds(Tail(names))
    IN [gs |-> ms[owner].gs \o SubGs(ms[owner].includes), tds |-> ms[owner].tds \o SubTds(ms[owner].includes)]

ModuleGroupings(ms, name) == ModuleLevel(ms, name).gs

ImportedModule(ms, mod, prefix) ==
    LET m == ms[mod]
        own == IF m.sub THEN ms[m.belongs].prefix ELSE m.prefix
    IN IF prefix = own THEN (IF m.sub THEN m.belongs ELSE mod)
       ELSE LET i == CHOOSE i \in DOMAIN m.imports : m.imports[i].p = prefix IN m.imports[i].m

\* result: [found, g (the grouping), scope (scope of its definition), mod]
RECURSIVE LookupIn(_, _, _)
LookupIn(scope, name, mod) ==
    IF scope = << >> THEN [found |-> FALSE]
    ELSE LET i == IndexOfName(Head(scope).gs, name) IN
         IF i > 0 THEN [found |-> TRUE, g |-> Head(scope).gs[i], scope |-> scope, mod |-> mod]
         ELSE LookupIn(Tail(scope), name, mod)

Lookup(ms, mod, scope, ref) ==
    IF ref.p = "" THEN LookupIn(scope, ref.g, mod)
    ELSE LET target == ImportedModule(ms, mod, ref.p) IN
         IF target = (IF ms[mod].sub THEN ms[mod].belongs ELSE mod) THEN LookupIn(scope, ref.g, mod)
         ELSE LookupIn(<< ModuleLevel(ms, target) >>, ref.g, target)

\* typedefs: the same lexical rule
RECURSIVE LookupTdIn(_, _, _)
LookupTdIn(scope, name, mod) ==
    IF scope = << >> THEN [found |-> FALSE]
    ELSE LET i == IndexOfName(Head(scope).tds, name) IN
         IF i > 0 THEN [found |-> TRUE, td |-> Head(scope).tds[i], scope |-> scope, mod |-> mod]
         ELSE LookupTdIn(Tail(scope), name, mod)

LookupTd(ms, mod, scope, ty) ==
    IF ty.p = "" THEN LookupTdIn(scope, ty.n, mod)
    ELSE LET target == ImportedModule(ms, mod, ty.p) IN
         IF target = (IF ms[mod].sub THEN ms[mod].belongs ELSE mod) THEN LookupTdIn(scope, ty.n, mod)
         ELSE LookupTdIn(<< ModuleLevel(ms, target) >>, ty.n, target)

\* enum values: stated, or one more than the highest so far (RFC 7950 9.6.4.2)
RECURSIVE NumberEnums(_, _)
NumberEnums(en, highest) ==
    IF en = << >> THEN << >>
    ELSE LET e == Head(en)
             v == IF e.v >= 0 THEN e.v ELSE highest + 1
         IN << [l |-> e.l, v |-> v] >> \o NumberEnums(Tail(en), IF v > highest THEN v ELSE highest)

\* identities: [m, n] pairs.  Everything the main module reaches through imports (of imports ...) is
\* part of the schema; an identityref accepts its base and whatever is derived from it there (9.10.2)
FamilyOf(ms, name) == LET owner == IF ms[name].sub THEN ms[name].belongs ELSE name
                      IN { n \in DOMAIN ms : n = owner \/ (ms[n].sub /\ ms[n].belongs = owner) }

RECURSIVE ReachFrom(_, _, _)
ReachFrom(ms, frontier, seen) ==
    IF frontier = {} THEN seen
    ELSE LET next == UNION { UNION { { ms[f].imports[i].m : i \in DOMAIN ms[f].imports } : f \in FamilyOf(ms, n) } : n \in frontier }
             new == (next \ seen) \cap DOMAIN ms
         IN ReachFrom(ms, new, seen \cup new)

ReachableModules(ms, main) == UNION { FamilyOf(ms, n) : n \in ReachFrom(ms, {main}, {main}) }

IdentityOf(ms, mod, ref) ==
    [m |-> ImportedModule(ms, mod, IF ref.p = "" THEN (IF ms[mod].sub THEN ms[ms[mod].belongs].prefix ELSE ms[mod].prefix) ELSE ref.p), n |-> ref.n]

AllIdentities(ms, main) ==
    UNION { { [m |-> (IF ms[mo].sub THEN ms[mo].belongs ELSE mo), n |-> ms[mo].ids[i].n,
               bases |-> { IdentityOf(ms, mo, ms[mo].ids[i].bases[j]) : j \in DOMAIN ms[mo].ids[i].bases }] : i \in DOMAIN ms[mo].ids }
            : mo \in ReachableModules(ms, main) }

RECURSIVE DerivedClosure(_, _)
DerivedClosure(all, S) ==
    LET more == { [m |-> id.m, n |-> id.n] : id \in { x \in all : x.bases \cap S # {} } } IN
    IF more \subseteq S THEN S ELSE DerivedClosure(all, S \cup more)

Accepted(ms, main, mod, base) ==
    IF base.n = "" THEN {}
    ELSE { id.n : id \in DerivedClosure(AllIdentities(ms, main), { IdentityOf(ms, mod, base) }) }

\* the module the meaning is taken of (module sets of this specification have their main module under "m")
MainOf(ms) == "m"

\* the derivation of a type statement (RFC 7950 7.3, 9): base built-in type, the restrictions
\* stated along the chain (nearest first), and the default / units of the nearest typedef that has one
\* a type as one string: what a union member, or the leaf a leafref points at, is
RECURSIVE JoinWith(_, _)
JoinWith(seq, sep) == IF seq = << >> THEN "" ELSE IF Len(seq) = 1 THEN seq[1] ELSE seq[1] \o sep \o JoinWith(Tail(seq), sep)

EnumText(en) == JoinWith([ i \in DOMAIN en |-> en[i].l \o "=" \o ToString(en[i].v) ], ",")

TypeSig(r) ==
    IF r.base = "union" THEN "union[" \o JoinWith(r.mems, "|") \o "]"
    ELSE r.base \o "(" \o JoinWith(r.rngs, ",") \o ";" \o JoinWith(r.lens, ",") \o ";" \o EnumText(r.en) \o ")"

\* the derivation of a type statement (RFC 7950 7.3, 9): base built-in type, the restrictions
\* stated along the chain (nearest first), and the default / units of the nearest typedef that has
\* one; enum values and bit positions assigned (9.6.4.2, 9.7.4.2); the members of a union, each
\* derived the same way, in order (9.12); the path of a leafref (9.9; what it points at depends on
\* where the leaf ends up, see ResolveRefs)
RECURSIVE ResolveType(_, _, _, _)
ResolveType(ms, mod, scope, ty) ==
    LET own == IF ty.rng = "" THEN << >> ELSE << ty.rng >>
        ownLen == IF ty.len = "" THEN << >> ELSE << ty.len >> IN
    IF ty.p = "" /\ ty.n \in Builtins
    THEN [base |-> ty.n, rngs |-> own, lens |-> ownLen, en |-> NumberEnums(ty.en, -1), dflt |-> "", units |-> "",
          idbase |-> ty.base, idmod |-> mod,
          mems |-> [ i \in DOMAIN ty.mem |-> TypeSig(ResolveType(ms, mod, scope, ty.mem[i])) ],
          path |-> ty.path]
    ELSE LET l == LookupTd(ms, mod, scope, ty)
             inner == ResolveType(ms, l.mod, l.scope, l.td.ty)
         IN [base |-> inner.base, rngs |-> own \o inner.rngs, lens |-> ownLen \o inner.lens, en |-> inner.en, idbase |-> inner.idbase, idmod |-> inner.idmod,
             mems |-> inner.mems, path |-> inner.path,
             dflt |-> IF l.td.dflt # "" THEN l.td.dflt ELSE inner.dflt,
             units |-> IF l.td.units # "" THEN l.td.units ELSE inner.units]

-----------------------------------------------------------------------------
(* operations on expanded statement sequences by relative path *)

SetAttr(s, attr, v) ==
    CASE attr = "cfg" -> [s EXCEPT !.cfg = v]
      [] attr = "mand" -> [s EXCEPT !.mand = v]
      [] attr = "dflt" -> [s EXCEPT !.dflt = v]
      [] attr = "desc" -> [s EXCEPT !.desc = v]

\* statements appended below a target; under a choice anything but a case gets its own case
AsCases(target, ss) ==
    IF target.k # "choice" THEN ss
    ELSE [ i \in DOMAIN ss |-> IF ss[i].k = "case" THEN ss[i] ELSE [St("case", ss[i].n) EXCEPT !.c = << ss[i] >>] ]

AppendKids(s, ss) == [s EXCEPT !.c = s.c \o AsCases(s, ss)]

IsFirstNamed(seq, i, name) == seq[i].n = name /\ \A j \in 1..(i-1) : seq[j].n # name

RECURSIVE SetAttrAt(_, _, _, _)
SetAttrAt(seq, path, attr, v) ==
    [ i \in DOMAIN seq |->
        IF IsFirstNamed(seq, i, Head(path))
        THEN IF Len(path) = 1 THEN SetAttr(seq[i], attr, v)
             ELSE [seq[i] EXCEPT !.c = SetAttrAt(seq[i].c, Tail(path), attr, v)]
        ELSE seq[i] ]

RECURSIVE AppendAt(_, _, _)
AppendAt(seq, path, kids) ==
    [ i \in DOMAIN seq |->
        IF IsFirstNamed(seq, i, Head(path))
        THEN IF Len(path) = 1 THEN AppendKids(seq[i], kids)
             ELSE [seq[i] EXCEPT !.c = AppendAt(seq[i].c, Tail(path), kids)]
        ELSE seq[i] ]

\* does the path lead to a statement?
RECURSIVE Resolves(_, _)
Resolves(seq, path) ==
    \E i \in DOMAIN seq : /\ IsFirstNamed(seq, i, Head(path))
                          /\ (Len(path) = 1 \/ Resolves(seq[i].c, Tail(path)))

RECURSIVE ApplyRefines(_, _)
ApplyRefines(seq, refs) ==
    IF refs = << >> THEN seq
    ELSE LET r == Head(refs) IN
         ApplyRefines(SetAttrAt(seq, r.path, r.attr, r.val), Tail(refs))

-----------------------------------------------------------------------------
(* expansion of uses; `on' is the set of enabled features *)

RECURSIVE Expand(_, _, _, _, _)
RECURSIVE ExpandOne(_, _, _, _, _)
RECURSIVE ApplyAugs(_, _, _, _, _, _)

\* ss: statements; scope: lexical scope; depth bounds the recursion (recursive groupings
\* are outside this specification)
Expand(ms, mod, on, scope, ss) ==
    Flatten([ i \in DOMAIN ss |-> ExpandOne(ms, mod, on, scope, ss[i]) ])

ApplyAugs(ms, mod, on, scope, seq, augs) ==
    IF augs = << >> THEN seq
    ELSE LET a == Head(augs)
             kids == Expand(ms, mod, on, scope, a.c)
         IN ApplyAugs(ms, mod, on, scope, AppendAt(seq, a.path, kids), Tail(augs))

ExpandOne(ms, mod, on, scope, s) ==
    IF s.iff # "" /\ s.iff \notin on THEN << >>
    \* actions travel with their grouping but are not part of the data tree compared here (the
    \* harness checks the integrity of their copies: parents, no object shared between uses)
    ELSE IF s.k = "action" THEN << >>
    ELSE IF s.k = "uses" THEN
        LET l == Lookup(ms, mod, scope, s.ref0)
            inner == Expand(ms, l.mod, on, << [gs |-> l.g.gs, tds |-> l.g.tds] >> \o l.scope, l.g.c)
            refined == ApplyRefines(inner, s.ref)
        IN ApplyAugs(ms, mod, on, scope, refined, s.aug)
    ELSE IF s.k \in {"leaf", "leaflist"} THEN
        \* the type is resolved where the leaf is written; what the leaf states itself wins
        LET r == ResolveType(ms, mod, scope, s.ty) IN
        << [s EXCEPT !.et = [base |-> r.base, rngs |-> r.rngs, lens |-> r.lens, en |-> r.en, ids |-> Accepted(ms, MainOf(ms), r.idmod, r.idbase),
                            mems |-> r.mems, path |-> r.path, tgt |-> ""],
                     !.dflt = IF s.dflt # "" THEN s.dflt ELSE r.dflt,
                     !.units = IF s.units # "" THEN s.units ELSE r.units] >>
    ELSE LET kids == Expand(ms, mod, on, << [gs |-> s.gs, tds |-> s.tds] >> \o scope, s.c) IN
         << [s EXCEPT !.c = AsCases(s, kids), !.gs = << >>, !.tds = << >>] >>

\* statements use field ref0 = parsed reference (kept beside n so that no string is
\* taken apart at evaluation time)
-----------------------------------------------------------------------------
(* module level *)

RECURSIVE SubBodies(_, _, _, _)
SubBodies(ms, on, names, what) ==
    IF names = << >> THEN << >>
    ELSE LET sm == ms[Head(names)] IN
         (IF what = "body"
          THEN Expand(ms, Head(names), on, << ModuleLevel(ms, Head(names)) >>, sm.body)
          ELSE [ i \in DOMAIN sm.augs |-> [sm.augs[i] EXCEPT !.mod = Head(names)] ])
         \o SubBodies(ms, on, sm.includes, what) \o SubBodies(ms, on, Tail(names), what)

RECURSIVE ApplyModuleAugs(_, _, _, _)
ApplyModuleAugs(ms, on, seq, augs) ==
    IF augs = << >> THEN seq
    ELSE LET a == Head(augs)
             kids == Expand(ms, a.mod, on, << ModuleLevel(ms, a.mod) >>, a.c)
         IN ApplyModuleAugs(ms, on, AppendAt(seq, a.path, kids), Tail(augs))

\* leafrefs: the path is followed in the finished tree from where the leaf stands (9.9.2: ".." is
\* the parent, a leading "/" the top; names without prefix); what the leaf points at is a leaf, and
\* its type - through further leafrefs - is the type users see.  (Paths of this specification do
\* not cross choices.)
RECURSIVE MKidsAt(_, _)
MKidsAt(root, ip) == IF ip = << >> THEN root ELSE MKidsAt(root[ip[1]].c, Tail(ip))

RECURSIVE MNodeAt(_, _)
MNodeAt(root, ip) == IF Len(ip) = 1 THEN root[ip[1]] ELSE MNodeAt(root[ip[1]].c, Tail(ip))

RECURSIVE Ups(_)
Ups(path) == IF path # << >> /\ Head(path) = ".." THEN 1 + Ups(Tail(path)) ELSE 0

\* index path of the node reached from container index path `at' by the names
RECURSIVE WalkNames(_, _, _)
WalkNames(root, at, names) ==
    IF names = << >> THEN at
    ELSE LET i == IndexOfName(MKidsAt(root, at), Head(names)) IN
         IF i = 0 THEN << 0 >> ELSE WalkNames(root, Append(at, i), Tail(names))

TargetOf(root, ip, path) ==
    IF Head(path) = "/" THEN WalkNames(root, << >>, Tail(path))
    ELSE LET k == Ups(path) IN
         IF k > Len(ip) THEN << 0 >>
         ELSE WalkNames(root, SubSeq(ip, 1, Len(ip) - k), SubSeq(path, k + 1, Len(path)))

RECURSIVE TargetSig(_, _, _)
TargetSig(root, ip, fuel) ==
    LET n == MNodeAt(root, ip) IN
    IF n.et.base # "leafref" THEN TypeSig(n.et)
    ELSE LET t == TargetOf(root, ip, n.et.path) IN
         IF fuel = 0 \/ t = << 0 >> \/ t = << >> THEN "?"
         ELSE IF MNodeAt(root, t).k \notin {"leaf", "leaflist"} THEN "?"
         ELSE TargetSig(root, t, fuel - 1)

RECURSIVE ResolveRefs(_, _, _)
ResolveRefs(root, seq, at) ==
    [ i \in DOMAIN seq |->
        LET s == seq[i] IN
        IF s.k \in {"leaf", "leaflist"} THEN
            (IF s.et.base = "leafref" THEN [s EXCEPT !.et.tgt = TargetSig(root, Append(at, i), 4)] ELSE s)
        ELSE [s EXCEPT !.c = ResolveRefs(root, s.c, Append(at, i))] ]

\* effective properties
RECURSIVE Effective(_, _)
Effective(seq, inherited) ==
    [ i \in DOMAIN seq |->
        LET s == seq[i]
            cfg == IF s.cfg = "" THEN inherited ELSE (s.cfg = "true")
        IN [k |-> s.k, n |-> s.n, cfg |-> cfg, mand |-> (s.mand = "true"), dflt |-> s.dflt, desc |-> s.desc,
            keys |-> s.keys, units |-> s.units, et |-> IF s.k \in {"leaf", "leaflist"} THEN s.et ELSE NoEt,
            c |-> Effective(s.c, cfg)] ]

Meaning(ms, main, on) ==
    LET m == ms[main]
        top == << ModuleLevel(ms, main) >>
        own == Expand(ms, main, on, top, m.body)
        subs == SubBodies(ms, on, m.includes, "body")
        augs == [ i \in DOMAIN m.augs |-> [m.augs[i] EXCEPT !.mod = main] ] \o SubBodies(ms, on, m.includes, "augs")
        tree == ApplyModuleAugs(ms, on, own \o subs, augs)
    IN Effective(ResolveRefs(tree, tree, << >>), TRUE)

-----------------------------------------------------------------------------
(* comparison of an observed compiled tree with the meaning: first difference *)

\* cases of a choice come back through the public accessors in alphabetical order (they are
\* kept in a map): their order is not observable and not compared
AlignTo(want, got) ==
    IF /\ Len(want) = Len(got)
       /\ { want[i].n : i \in DOMAIN want } = { got[i].n : i \in DOMAIN got }
       /\ Cardinality({ want[i].n : i \in DOMAIN want }) = Len(want)
    THEN [ i \in DOMAIN got |-> want[CHOOSE j \in DOMAIN want : want[j].n = got[i].n] ]
    ELSE want

RECURSIVE Diff(_, _, _)
Diff(want0, got, unordered) ==
    LET want == IF unordered THEN AlignTo(want0, got) ELSE want0 IN
    IF Len(got) < Len(want) THEN
        (IF \E i \in DOMAIN want : \A j \in DOMAIN got : got[j].n # want[i].n THEN "node-missing" ELSE "node-count")
    ELSE IF Len(got) > Len(want) THEN
        (IF \E j \in DOMAIN got : \A i \in DOMAIN want : got[j].n # want[i].n THEN "node-not-in-meaning" ELSE "node-duplicated")
    ELSE IF \E i \in DOMAIN want : want[i].n # got[i].n THEN
        (IF { want[i].n : i \in DOMAIN want } = { got[i].n : i \in DOMAIN got } THEN "order-differs" ELSE "node-name-differs")
    ELSE IF \E i \in DOMAIN want : want[i].k # got[i].k THEN "kind-differs"
    ELSE IF \E i \in DOMAIN want : want[i].k # "case" /\ want[i].cfg # got[i].cfg THEN "config-differs"
    ELSE IF \E i \in DOMAIN want : want[i].mand # got[i].mand THEN "mandatory-differs"
    ELSE IF \E i \in DOMAIN want : want[i].dflt # got[i].dflt THEN "default-differs"
    ELSE IF \E i \in DOMAIN want : want[i].desc # got[i].desc THEN "description-differs"
    ELSE IF \E i \in DOMAIN want : want[i].keys # got[i].keys THEN "keys-differ"
    ELSE IF \E i \in DOMAIN want : want[i].units # got[i].units THEN "units-differ"
    ELSE IF \E i \in DOMAIN want : want[i].k \in {"leaf", "leaflist"} /\ want[i].et.base # got[i].et.base THEN "base-type-differs"
    ELSE IF \E i \in DOMAIN want : want[i].k \in {"leaf", "leaflist"} /\ want[i].et.rngs # got[i].et.rngs THEN "accumulated-ranges-differ"
    ELSE IF \E i \in DOMAIN want : want[i].k \in {"leaf", "leaflist"} /\ want[i].et.lens # got[i].et.lens THEN "accumulated-lengths-differ"
    ELSE IF \E i \in DOMAIN want : want[i].k \in {"leaf", "leaflist"} /\ want[i].et.en # got[i].et.en THEN
        (IF \E i \in DOMAIN want : want[i].k \in {"leaf", "leaflist"} /\ want[i].et.en # got[i].et.en /\ want[i].et.base = "bits"
         THEN "bit-positions-differ" ELSE "enum-values-differ")
    ELSE IF \E i \in DOMAIN want : want[i].k \in {"leaf", "leaflist"} /\ want[i].et.mems # got[i].et.mems THEN "union-members-differ"
    ELSE IF \E i \in DOMAIN want : want[i].k \in {"leaf", "leaflist"} /\ want[i].et.tgt # got[i].et.tgt THEN "leafref-target-differs"
    ELSE IF \E i \in DOMAIN want : want[i].k \in {"leaf", "leaflist"} /\ want[i].et.ids # { got[i].et.ids[j] : j \in DOMAIN got[i].et.ids }
         THEN "accepted-identities-differ"
    ELSE IF \E i \in DOMAIN want : Diff(want[i].c, got[i].c, want[i].k = "choice") # "ok" THEN
        LET i == CHOOSE i \in DOMAIN want : Diff(want[i].c, got[i].c, want[i].k = "choice") # "ok"
        IN Diff(want[i].c, got[i].c, want[i].k = "choice")
    ELSE "ok"
=============================================================================
