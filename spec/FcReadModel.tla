---------------------------- MODULE FcReadModel ----------------------------
(***************************************************************************)
(* C07 on the model: over every tree reachable in the store state machine    *)
(* and every pair of query parameters from a finite alphabet                  *)
(*   - the projection is part of the full read, values unchanged             *)
(*   - combining two parameters gives the intersection of their projections  *)
(*   - the canonical result is admitted by ReadCheck (the predicate that      *)
(*     judges the real code), a result with one extra leaf or one leaf less   *)
(*     is not                                                                 *)
(***************************************************************************)
EXTENDS FcEditModel, FcRead

Neutral == [content |-> "", depth |-> 0, fields |-> {}, xfields |-> {}, trim |-> FALSE,
            range |-> [on |-> FALSE, sel |-> << >>, lo |-> 0, hi |-> -1], maxnode |-> 0]

Singles ==
    { [Neutral EXCEPT !.depth = d] : d \in {1, 2} }
    \cup { [Neutral EXCEPT !.fields = f] : f \in { {<<"c">>}, {<<"l", "e">>}, {<<"q", "r">>, <<"c", "x">>} } }
    \cup { [Neutral EXCEPT !.xfields = f] : f \in { {<<"l">>}, {<<"c", "y">>} } }
    \cup { [Neutral EXCEPT !.trim = TRUE] }
    \cup { [Neutral EXCEPT !.range = [on |-> TRUE, sel |-> <<"l">>, lo |-> lo, hi |-> hi]] :
             lo \in {0, 1}, hi \in {-1, 1} }

\* combine two single-parameter settings (the second wins where both set the same one)
Both(a, b) == [content |-> "",
               depth |-> IF b.depth # 0 THEN b.depth ELSE a.depth,
               fields |-> IF b.fields # {} THEN b.fields ELSE a.fields,
               xfields |-> IF b.xfields # {} THEN b.xfields ELSE a.xfields,
               trim |-> a.trim \/ b.trim,
               range |-> IF b.range.on THEN b.range ELSE a.range,
               maxnode |-> 0]

SameParam(a, b) == \/ (a.depth # 0 /\ b.depth # 0) \/ (a.fields # {} /\ b.fields # {})
                   \/ (a.xfields # {} /\ b.xfields # {}) \/ (a.range.on /\ b.range.on)

ResultOf(P, incl) ==
    LET ls == KeptLeaves(DS, T, << >>, P, incl)
        cs == ReqConts(DS, T, << >>, P, incl)
    IN [leaf |-> [p \in ls |-> T.leaf[p]], cont |-> cs, ord |-> << >>]

OkRes2 == [ok |-> TRUE, err |-> ""]

Inv_ProjectionWithinFull ==
    \A P \in Singles : \A incl \in BOOLEAN :
        /\ KeptLeaves(DS, T, << >>, P, incl) \subseteq DOMAIN T.leaf
        /\ KeptConts(DS, T, << >>, P, incl) \subseteq T.cont

Inv_Intersection ==
    \A a, b \in Singles : ~SameParam(a, b) =>
        \A incl \in BOOLEAN :
            KeptLeaves(DS, T, << >>, Both(a, b), incl)
              = KeptLeaves(DS, T, << >>, a, incl) \cap KeptLeaves(DS, T, << >>, b, incl)

Inv_CanonicalAdmitted ==
    \A P \in Singles : \A incl \in BOOLEAN :
        LET R == ResultOf(P, incl) IN
        /\ ReadCheck(DS, T, << >>, P, incl, OkRes2, R) = "ok"
        /\ \A p \in DOMAIN R.leaf :
              ReadCheck(DS, T, << >>, P, incl, OkRes2,
                        [R EXCEPT !.leaf = [q \in DOMAIN R.leaf \ {p} |-> R.leaf[q]]]) # "ok"
        /\ \A p \in DOMAIN T.leaf \ DOMAIN R.leaf :
              ReadCheck(DS, T, << >>, P, incl, OkRes2,
                        [R EXCEPT !.leaf = (p :> T.leaf[p]) @@ R.leaf]) # "ok"
=============================================================================
